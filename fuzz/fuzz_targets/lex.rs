#![no_main]
//! C18 clauses (a)-(d) in Rust on whatever the lexer accepts (ASCII inputs for the column clauses).
use libfuzzer_sys::fuzz_target;
use mamba::verif_hooks::{lex, LexItem};

fn synthetic(kind: &str) -> bool {
    matches!(kind, "NL" | "Indent" | "Dedent" | "Eof")
}

fn spelling(item: &LexItem) -> String {
    match item.kind.as_str() {
        "Str" => format!("\"{}\"", item.payload[0]),
        "DocStr" => format!("\"\"\"{}\"\"\"", item.payload[0]),
        "Comment" => format!("#{}", item.payload[0]),
        _ => item.lexeme.clone(),
    }
}

fn span_text(lines: &[&str], s: (usize, usize), e: (usize, usize)) -> Option<String> {
    let ((l0, c0), (l1, c1)) = (s, e);
    if l0 < 1 || l1 < l0 || l1 > lines.len() || c0 < 1 || c1 < 1 {
        return None;
    }
    if l0 == l1 {
        if c1 < c0 || c1 - 1 > lines[l0 - 1].len() {
            return None;
        }
        return Some(lines[l0 - 1][c0 - 1..c1 - 1].to_string());
    }
    if c0 - 1 > lines[l0 - 1].len() || c1 - 1 > lines[l1 - 1].len() {
        return None;
    }
    let mut parts = vec![lines[l0 - 1][c0 - 1..].to_string()];
    for l in &lines[l0..l1 - 1] {
        parts.push(l.to_string());
    }
    parts.push(lines[l1 - 1][..c1 - 1].to_string());
    Some(parts.join("\n"))
}

fuzz_target!(|data: &[u8]| {
    if data.len() > 2048 {
        return;
    }
    let Ok(src) = std::str::from_utf8(data) else {
        return;
    };
    let Ok(tokens) = lex(src) else {
        return;
    };
    // (d) single final Eof
    assert_eq!(tokens.iter().filter(|t| t.kind == "Eof").count(), 1, "not exactly one Eof");
    assert_eq!(tokens.last().map(|t| t.kind.as_str()), Some("Eof"), "Eof is not last");
    // (c) balance
    let mut run: i64 = 0;
    for t in &tokens {
        match t.kind.as_str() {
            "Indent" => run += 1,
            "Dedent" => run -= 1,
            _ => {}
        }
        assert!(run >= 0, "Dedent without a preceding Indent");
    }
    assert_eq!(run, 0, "an Indent has no matching Dedent");
    if !src.is_ascii() {
        return;
    }
    // (a) + (b)
    let lines: Vec<&str> = src.split('\n').collect();
    let mut prev_end = (1usize, 1usize);
    for t in tokens.iter().filter(|t| !synthetic(&t.kind)) {
        let got = span_text(&lines, t.start, t.end);
        assert_eq!(got.as_deref(), Some(spelling(t).as_str()), "span text differs from token spelling");
        assert!(t.start >= prev_end, "token starts before the previous one ended");
        prev_end = t.end;
        for group in &t.inner {
            for it in group.iter().filter(|it| !synthetic(&it.kind)) {
                let got = span_text(&lines, it.start, it.end);
                assert_eq!(got.as_deref(), Some(spelling(it).as_str()), "interpolated token span");
            }
        }
    }
});
