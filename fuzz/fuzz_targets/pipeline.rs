#![no_main]
//! C03 (totality) with a C12 rider: any UTF-8 text of at most 1 KiB yields Python or a non-empty
//! list of non-empty diagnostics, twice the same. A panic aborts the process (libFuzzer records the
//! input); the semantic oracle is inside the target.
use libfuzzer_sys::fuzz_target;
use std::path::PathBuf;

fuzz_target!(|data: &[u8]| {
    if data.len() > 1024 {
        return;
    }
    let Ok(text) = std::str::from_utf8(data) else {
        return;
    };
    if text.lines().count() > 200 {
        return;
    }
    let annotate = data.len() % 2 == 0;
    let run = || {
        mamba::mamba_to_python(
            &[(text.to_string(), None)],
            &PathBuf::from(""),
            &mamba::PipelineArguments { annotate },
        )
    };
    let first = run();
    match &first {
        Ok(sources) => assert_eq!(sources.len(), 1, "one source per input file"),
        Err(errs) => {
            assert!(!errs.is_empty(), "rejection without diagnostics");
            assert!(errs.iter().all(|e| !e.trim().is_empty()), "empty diagnostic");
        }
    }
    let second = run();
    assert_eq!(first.is_ok(), second.is_ok(), "verdict differs between two runs");
    if let (Ok(a), Ok(b)) = (&first, &second) {
        assert_eq!(a, b, "emitted Python differs between two runs");
    }
});
