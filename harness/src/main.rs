//! mverif — thin JSON-lines adapter around mamba's public entry points.
//!
//! The worker contains no oracle: it runs one request, reports what mamba returned (or
//! that it panicked / ran out of CPU budget) and nothing else. All judging is done by the
//! Python driver in /verif/pbt.
//!
//! Every request runs on a fresh thread with an 8 MiB stack (the main-thread stack of the
//! real `mamba` binary) inside `catch_unwind`. The main thread supervises the CPU time the
//! request thread has consumed; when it exceeds the request's `cpu_limit` the worker answers
//! `{"timeout": seconds}` and exits (the driver restarts it). Aborts (stack overflow) kill
//! the worker; the driver sees EOF plus a signal.
use std::cell::RefCell;
use std::io::{BufRead, Write};
use std::os::unix::thread::JoinHandleExt;
use std::panic;
use std::path::PathBuf;
use std::sync::mpsc;
use std::time::Duration;

use serde_json::{json, Value};

mod coreb;
mod lattice;

const STACK: usize = 8 * 1024 * 1024;

thread_local! {
    static LAST_PANIC: RefCell<String> = RefCell::new(String::new());
}

fn thread_cpu_now() -> f64 {
    let mut ts = libc::timespec { tv_sec: 0, tv_nsec: 0 };
    unsafe { libc::clock_gettime(libc::CLOCK_THREAD_CPUTIME_ID, &mut ts) };
    ts.tv_sec as f64 + ts.tv_nsec as f64 * 1e-9
}

fn thread_cpu_of(pt: libc::pthread_t) -> Option<f64> {
    let mut cid: libc::clockid_t = 0;
    let rc = unsafe { libc::pthread_getcpuclockid(pt, &mut cid) };
    if rc != 0 {
        return None;
    }
    let mut ts = libc::timespec { tv_sec: 0, tv_nsec: 0 };
    let rc = unsafe { libc::clock_gettime(cid, &mut ts) };
    if rc != 0 {
        return None;
    }
    Some(ts.tv_sec as f64 + ts.tv_nsec as f64 * 1e-9)
}

fn files_of(req: &Value) -> Vec<(String, Option<PathBuf>)> {
    req["files"]
        .as_array()
        .map(|a| {
            a.iter()
                .map(|f| {
                    let src = f[0].as_str().unwrap_or("").to_string();
                    let path = f[1].as_str().map(PathBuf::from);
                    (src, path)
                })
                .collect()
        })
        .unwrap_or_default()
}

fn transpile_once(files: &[(String, Option<PathBuf>)], dir: &PathBuf, annotate: bool) -> Value {
    let args = mamba::PipelineArguments { annotate };
    match mamba::mamba_to_python(files, dir, &args) {
        Ok(srcs) => json!({ "ok": srcs }),
        Err(errs) => json!({ "err": errs }),
    }
}

/// Run `f` under catch_unwind and turn a panic into `{"panic": "msg @ location"}`.
fn guarded<F: FnOnce() -> Value + panic::UnwindSafe>(f: F) -> Value {
    LAST_PANIC.with(|p| p.borrow_mut().clear());
    match panic::catch_unwind(f) {
        Ok(v) => v,
        Err(payload) => {
            let msg = if let Some(s) = payload.downcast_ref::<&str>() {
                s.to_string()
            } else if let Some(s) = payload.downcast_ref::<String>() {
                s.clone()
            } else {
                String::from("<non-string panic payload>")
            };
            let loc = LAST_PANIC.with(|p| p.borrow().clone());
            json!({ "panic": msg, "at": loc })
        }
    }
}

fn lex_item(item: &mamba::verif_hooks::LexItem) -> Value {
    json!({
        "k": item.kind,
        "l": item.lexeme,
        "p": item.payload,
        "s": [item.start.0, item.start.1],
        "e": [item.end.0, item.end.1],
        "inner": item.inner.iter().map(|v| v.iter().map(lex_item).collect::<Vec<_>>()).collect::<Vec<_>>(),
    })
}

fn handle(req: &Value) -> Value {
    let op = req["op"].as_str().unwrap_or("");
    match op {
        "ping" => json!({ "pong": true }),
        "transpile" => {
            let files = files_of(req);
            let dir = PathBuf::from(req["dir"].as_str().unwrap_or(""));
            let annotate = req["annotate"].as_bool().unwrap_or(false);
            guarded(move || transpile_once(&files, &dir, annotate))
        }
        // Same request `k` times in this process: list of results.
        "transpile_rep" => {
            let files = files_of(req);
            let dir = PathBuf::from(req["dir"].as_str().unwrap_or(""));
            let annotate = req["annotate"].as_bool().unwrap_or(false);
            let k = req["k"].as_u64().unwrap_or(2);
            let mut out = vec![];
            for _ in 0..k {
                let (f, d) = (files.clone(), dir.clone());
                out.push(guarded(move || transpile_once(&f, &d, annotate)));
            }
            json!({ "results": out })
        }
        // a history: the requests of `seq` one after the other on THIS thread (thread-local or process-wide state that one
        // run leaves behind is seen by the next); returns every result
        "transpile_seq" => {
            let empty = vec![];
            let mut out = vec![];
            for r in req["seq"].as_array().unwrap_or(&empty) {
                let files = files_of(r);
                let dir = PathBuf::from(r["dir"].as_str().unwrap_or(""));
                let annotate = r["annotate"].as_bool().unwrap_or(false);
                out.push(guarded(move || transpile_once(&files, &dir, annotate)));
            }
            json!({ "results": out })
        }
        // `t` threads, each `k` repeats of the same request, run concurrently.
        "transpile_mt" => {
            let files = files_of(req);
            let dir = PathBuf::from(req["dir"].as_str().unwrap_or(""));
            let annotate = req["annotate"].as_bool().unwrap_or(false);
            let k = req["k"].as_u64().unwrap_or(2);
            let t = req["t"].as_u64().unwrap_or(2);
            let mut handles = vec![];
            for _ in 0..t {
                let (f, d) = (files.clone(), dir.clone());
                let h = std::thread::Builder::new()
                    .stack_size(STACK)
                    .spawn(move || {
                        let mut out = vec![];
                        for _ in 0..k {
                            let (f, d) = (f.clone(), d.clone());
                            out.push(guarded(move || transpile_once(&f, &d, annotate)));
                        }
                        out
                    })
                    .expect("spawn");
                handles.push(h);
            }
            let mut out = vec![];
            for h in handles {
                match h.join() {
                    Ok(mut v) => out.append(&mut v),
                    Err(_) => out.push(json!({ "panic": "thread join failed" })),
                }
            }
            json!({ "results": out })
        }
        "transpile_dir" => {
            let dir = PathBuf::from(req["dir"].as_str().unwrap_or(""));
            let src = req["src"].as_str().map(String::from);
            let target = req["target"].as_str().map(String::from);
            let annotate = req["annotate"].as_bool().unwrap_or(false);
            guarded(move || {
                let args = mamba::Arguments { annotate };
                match mamba::transpile_dir(&dir, src.as_deref(), target.as_deref(), &args) {
                    Ok(p) => json!({ "ok": p.display().to_string() }),
                    Err(errs) => json!({ "err": errs }),
                }
            })
        }
        "lex" => {
            let src = req["src"].as_str().unwrap_or("").to_string();
            guarded(move || match mamba::verif_hooks::lex(&src) {
                Ok(items) => json!({ "tokens": items.iter().map(lex_item).collect::<Vec<_>>() }),
                Err((line, col, msg)) => json!({ "lexerr": [line, col, msg] }),
            })
        }
        // Debug rendering of mamba's own parse of a source text.
        "parse" => {
            let src = req["src"].as_str().unwrap_or("").to_string();
            guarded(move || match src.parse::<mamba::parse::ast::AST>() {
                Ok(ast) => json!({ "ast": format!("{ast:?}") }),
                Err(err) => json!({ "err": format!("{err}") }),
            })
        }
        // Print hand-built Core trees: {"cores":[tree…]} -> {"texts":[…]}.
        "core_print" => {
            let cores = req["cores"].as_array().cloned().unwrap_or_default();
            guarded(move || {
                let texts: Vec<Value> = cores
                    .iter()
                    .map(|c| match coreb::build(c) {
                        Ok(core) => Value::String(format!("{core}")),
                        Err(e) => json!({ "builderr": e }),
                    })
                    .collect();
                json!({ "texts": texts })
            })
        }
        "lattice" => {
            let req = req.clone();
            guarded(move || lattice::run(&req))
        }
        _ => json!({ "error": format!("unknown op {op}") }),
    }
}

fn main() {
    panic::set_hook(Box::new(|info| {
        let loc = info
            .location()
            .map(|l| format!("{}:{}", l.file(), l.line()))
            .unwrap_or_default();
        LAST_PANIC.with(|p| *p.borrow_mut() = loc);
    }));

    let stdin = std::io::stdin();
    let stdout = std::io::stdout();
    for line in stdin.lock().lines() {
        let line = match line {
            Ok(l) => l,
            Err(_) => break,
        };
        if line.trim().is_empty() {
            continue;
        }
        let req: Value = match serde_json::from_str(&line) {
            Ok(v) => v,
            Err(e) => {
                let mut out = stdout.lock();
                writeln!(out, "{}", json!({ "error": format!("bad json: {e}") })).ok();
                out.flush().ok();
                continue;
            }
        };
        let cpu_limit = req["cpu_limit"].as_f64().unwrap_or(120.0);
        let (tx, rx) = mpsc::channel::<(Value, f64)>();
        let req2 = req.clone();
        let handle = std::thread::Builder::new()
            .stack_size(STACK)
            .spawn(move || {
                let v = handle(&req2);
                let cpu = thread_cpu_now();
                tx.send((v, cpu)).ok();
            })
            .expect("spawn request thread");
        let pt = handle.as_pthread_t();
        let mut reply: Option<Value> = None;
        loop {
            match rx.recv_timeout(Duration::from_millis(25)) {
                Ok((mut v, cpu)) => {
                    if let Some(obj) = v.as_object_mut() {
                        obj.insert("cpu".into(), json!(cpu));
                    }
                    reply = Some(v);
                    break;
                }
                Err(mpsc::RecvTimeoutError::Timeout) => {
                    if let Some(cpu) = thread_cpu_of(pt) {
                        if cpu > cpu_limit {
                            let mut out = stdout.lock();
                            writeln!(out, "{}", json!({ "timeout": cpu })).ok();
                            out.flush().ok();
                            std::process::exit(3);
                        }
                    }
                }
                Err(mpsc::RecvTimeoutError::Disconnected) => {
                    reply = Some(json!({ "panic": "request thread died without reply" }));
                    break;
                }
            }
        }
        handle.join().ok();
        let mut out = stdout.lock();
        writeln!(out, "{}", reply.unwrap()).ok();
        out.flush().ok();
    }
}
