//! Tabulation of the assignability relation (C20). No judging here.
use serde_json::{json, Value};

pub fn run(_req: &Value) -> Value {
    json!({ "error": "lattice: not built yet" })
}
