//! Tabulation of the assignability relation (C20). No judging here: the worker builds the
//! context and the names and reports what mamba answers.
//!
//! Request: {"src": mamba source (user classes), "terms": [term…], "eq": [[i, j]…]}
//! term: {"n": "Int"} | {"n": "List", "g": [term…]} | {"opt": term} | {"u": [term, term…]}
//!       | {"tuple": [term…]} | {"fun": [[term…], term]}
//!       | {"ann": "type text"}  the name the checker itself builds from a type annotation in source
//!         (`def zz: <text>` is parsed by mamba, Name::try_from on the type node): unions written in
//!         source are NOT normalised by Name::union
//! Reply: display strings, the matrix sup[i][j] of `terms[i].is_superset_of(terms[j])`
//! (1 true, 0 false, 2 Err, 3 panic) built twice from freshly constructed names (the second time
//! union members are inserted in reverse order), the answers of the `==` queries, and the
//! parent relation of every class of the context.
use std::convert::TryFrom;
use std::panic;

use mamba::check::context::Context;
use mamba::check::name::string_name::StringName;
use mamba::check::name::{IsSuperSet, Name, Nullable, TupleCallable, Union};
use mamba::common::position::Position;
use mamba::parse::ast::{Node, AST};
use serde_json::{json, Value};

fn from_annotation(text: &str) -> Result<Name, String> {
    let src = format!("def zz_ann: {text}\n");
    let ast = src.parse::<AST>().map_err(|e| format!("annotation {text} does not parse: {e}"))?;
    let stmt = match &ast.node {
        Node::Block { statements } => statements.first().cloned().ok_or("empty block")?,
        _ => ast.clone(),
    };
    match &stmt.node {
        Node::VariableDef { ty: Some(ty), .. } => Name::try_from(ty)
            .map_err(|e| format!("annotation {text}: {}", e.first().map_or(String::new(), |e| format!("{e}")))),
        other => Err(format!("annotation {text}: unexpected node {other:?}")),
    }
}

fn build(term: &Value, reverse: bool) -> Result<Name, String> {
    if let Some(text) = term.get("ann").and_then(|t| t.as_str()) {
        return from_annotation(text);
    }
    if let Some(n) = term.get("n").and_then(|n| n.as_str()) {
        let generics: Vec<Name> = match term.get("g").and_then(|g| g.as_array()) {
            Some(g) => g.iter().map(|t| build(t, reverse)).collect::<Result<_, _>>()?,
            None => vec![],
        };
        return Ok(Name::from(&StringName::new(n, &generics)));
    }
    if let Some(inner) = term.get("opt") {
        return Ok(build(inner, reverse)?.as_nullable());
    }
    if let Some(members) = term.get("u").and_then(|u| u.as_array()) {
        let mut names: Vec<Name> =
            members.iter().map(|t| build(t, reverse)).collect::<Result<_, _>>()?;
        if reverse {
            names.reverse();
        }
        let mut it = names.into_iter();
        let mut acc = it.next().ok_or("empty union")?;
        for n in it {
            acc = acc.union(&n);
        }
        return Ok(acc);
    }
    if let Some(elements) = term.get("tuple").and_then(|u| u.as_array()) {
        let names: Vec<Name> =
            elements.iter().map(|t| build(t, reverse)).collect::<Result<_, _>>()?;
        return Ok(Name::tuple(&names));
    }
    if let Some(fun) = term.get("fun").and_then(|u| u.as_array()) {
        let args: Vec<Name> = fun[0]
            .as_array()
            .ok_or("fun args")?
            .iter()
            .map(|t| build(t, reverse))
            .collect::<Result<_, _>>()?;
        let ret = build(&fun[1], reverse)?;
        return Ok(Name::callable(&args, &ret));
    }
    Err(format!("bad term {term}"))
}

fn matrix(names: &[Name], ctx: &Context) -> (Vec<Vec<u8>>, Vec<String>) {
    let pos = Position::invisible();
    let mut errs = vec![];
    let mut rows = vec![];
    for a in names {
        let mut row = vec![];
        for b in names {
            let r = panic::catch_unwind(panic::AssertUnwindSafe(|| a.is_superset_of(b, ctx, pos)));
            row.push(match r {
                Ok(Ok(true)) => 1,
                Ok(Ok(false)) => 0,
                Ok(Err(e)) => {
                    if errs.len() < 5 {
                        errs.push(format!("{a} >= {b}: {}", e.first().map_or(String::new(), |e| format!("{e}"))));
                    }
                    2
                }
                Err(_) => {
                    if errs.len() < 5 {
                        errs.push(format!("{a} >= {b}: panic"));
                    }
                    3
                }
            });
        }
        rows.push(row);
    }
    (rows, errs)
}

pub fn run(req: &Value) -> Value {
    let src = req["src"].as_str().unwrap_or("");
    let ast = match src.parse::<AST>() {
        Ok(ast) => ast,
        Err(e) => return json!({ "error": format!("source does not parse: {e}") }),
    };
    let ctx = match Context::try_from(vec![ast].as_slice()) {
        Ok(ctx) => ctx,
        Err(errs) => {
            return json!({ "error": format!("context: {}", errs.first().map_or(String::new(), |e| format!("{e}"))) })
        }
    };
    let empty = vec![];
    let terms = req["terms"].as_array().unwrap_or(&empty);
    let build_all = |reverse: bool| -> Result<Vec<Name>, String> {
        terms.iter().map(|t| build(t, reverse)).collect()
    };
    let (names, names2) = match (build_all(false), build_all(true)) {
        (Ok(a), Ok(b)) => (a, b),
        (Err(e), _) | (_, Err(e)) => return json!({ "error": e }),
    };
    let (sup, errs) = matrix(&names, &ctx);
    let (sup2, _) = matrix(&names2, &ctx);
    let eq: Vec<bool> = req["eq"]
        .as_array()
        .unwrap_or(&empty)
        .iter()
        .map(|p| {
            let (i, j) = (p[0].as_u64().unwrap_or(0) as usize, p[1].as_u64().unwrap_or(0) as usize);
            names[i] == names[j] && names2[i] == names2[j] && names[i] == names2[j]
        })
        .collect();
    let mut classes = serde_json::Map::new();
    for c in &ctx.classes {
        let parents: Vec<String> = c.parents.iter().map(|p| p.name.variant.name.clone()).collect();
        classes.insert(
            c.name.name.clone(),
            json!({ "parents": parents, "generics": c.name.generics.len(), "concrete": c.concrete }),
        );
    }
    json!({
        "display": names.iter().map(|n| format!("{n}")).collect::<Vec<_>>(),
        "sup": sup,
        "sup2": sup2,
        "eq": eq,
        "errors": errs,
        "classes": classes,
    })
}
