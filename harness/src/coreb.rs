//! JSON -> mamba::generate::ast::node::Core (hand-built trees for the printer, C10).
//! Format: ["Tag", child…]; see /verif/pbt/coretree.py for the producer.
use mamba::generate::ast::node::{Core, CoreOp};
use serde_json::Value;

fn b(v: &Value) -> Result<Box<Core>, String> {
    Ok(Box::new(build(v)?))
}

fn list(v: &Value) -> Result<Vec<Core>, String> {
    v.as_array()
        .ok_or_else(|| format!("expected list: {v}"))?
        .iter()
        .map(build)
        .collect()
}

fn opt(v: &Value) -> Result<Option<Box<Core>>, String> {
    if v.is_null() {
        Ok(None)
    } else {
        Ok(Some(b(v)?))
    }
}

fn s(v: &Value) -> Result<String, String> {
    v.as_str()
        .map(String::from)
        .ok_or_else(|| format!("expected string: {v}"))
}

pub fn build(v: &Value) -> Result<Core, String> {
    let a = v.as_array().ok_or_else(|| format!("expected node: {v}"))?;
    let tag = a.first().and_then(|t| t.as_str()).ok_or("missing tag")?;
    let n = &Value::Null;
    let g = |i: usize| a.get(i).unwrap_or(n);
    macro_rules! bin {
        ($v:ident) => {
            Core::$v { left: b(g(1))?, right: b(g(2))? }
        };
    }
    macro_rules! un {
        ($v:ident) => {
            Core::$v { expr: b(g(1))? }
        };
    }
    Ok(match tag {
        "Id" => Core::Id { lit: s(g(1))? },
        "Int" => Core::Int { int: s(g(1))? },
        "Float" => Core::Float { float: s(g(1))? },
        "Str" => Core::Str { string: s(g(1))? },
        "FStr" => Core::FStr { string: s(g(1))? },
        "DocStr" => Core::DocStr { string: s(g(1))? },
        "Bool" => Core::Bool { boolean: g(1).as_bool().unwrap_or(false) },
        "ENum" => Core::ENum { num: s(g(1))?, exp: s(g(2))? },
        "None" => Core::None,
        "UnderScore" => Core::UnderScore,
        "Pass" => Core::Pass,
        "Empty" => Core::Empty,
        "Break" => Core::Break,
        "Continue" => Core::Continue,
        "Ge" => bin!(Ge),
        "Geq" => bin!(Geq),
        "Le" => bin!(Le),
        "Leq" => bin!(Leq),
        "Is" => bin!(Is),
        "IsN" => bin!(IsN),
        "Eq" => bin!(Eq),
        "Neq" => bin!(Neq),
        "IsA" => bin!(IsA),
        "And" => bin!(And),
        "Or" => bin!(Or),
        "Add" => bin!(Add),
        "Sub" => bin!(Sub),
        "Mul" => bin!(Mul),
        "Mod" => bin!(Mod),
        "Pow" => bin!(Pow),
        "Div" => bin!(Div),
        "FDiv" => bin!(FDiv),
        "BAnd" => bin!(BAnd),
        "BOr" => bin!(BOr),
        "BXOr" => bin!(BXOr),
        "BLShift" => bin!(BLShift),
        "BRShift" => bin!(BRShift),
        "In" => bin!(In),
        "Not" => un!(Not),
        "AddU" => un!(AddU),
        "SubU" => un!(SubU),
        "Sqrt" => un!(Sqrt),
        "BOneCmpl" => un!(BOneCmpl),
        "Return" => un!(Return),
        "Raise" => Core::Raise { error: b(g(1))? },
        "Ternary" => Core::Ternary { cond: b(g(1))?, then: b(g(2))?, el: b(g(3))? },
        "AnonFun" => Core::AnonFun { args: list(g(1))?, body: b(g(2))? },
        "PropertyCall" => Core::PropertyCall { object: b(g(1))?, property: b(g(2))? },
        "FunctionCall" => Core::FunctionCall { function: b(g(1))?, args: list(g(2))? },
        "Index" => Core::Index { item: b(g(1))?, range: b(g(2))? },
        "Tuple" => Core::Tuple { elements: list(g(1))? },
        "TupleLiteral" => Core::TupleLiteral { elements: list(g(1))? },
        "List" => Core::List { elements: list(g(1))? },
        "Set" => Core::Set { elements: list(g(1))? },
        "Dictionary" => {
            let mut elements = vec![];
            for kv in g(1).as_array().ok_or("dict list")? {
                elements.push((build(&kv[0])?, build(&kv[1])?));
            }
            Core::Dictionary { elements }
        }
        "KeyValue" => Core::KeyValue { key: b(g(1))?, value: b(g(2))? },
        "Comprehension" => Core::Comprehension { expr: b(g(1))?, col: b(g(2))?, conds: list(g(3))? },
        "VarDef" => Core::VarDef { var: b(g(1))?, ty: opt(g(2))?, expr: opt(g(3))? },
        "Assign" => {
            let op = match g(3).as_str().unwrap_or("=") {
                "=" => CoreOp::Assign,
                "+=" => CoreOp::AddAssign,
                "-=" => CoreOp::SubAssign,
                "*=" => CoreOp::MulAssign,
                "/=" => CoreOp::DivAssign,
                "**=" => CoreOp::PowAssign,
                "<<=" => CoreOp::BLShiftAssign,
                ">>=" => CoreOp::BRShiftAssign,
                o => return Err(format!("bad assign op {o}")),
            };
            Core::Assign { left: b(g(1))?, right: b(g(2))?, op }
        }
        "Block" => Core::Block { statements: list(g(1))? },
        "If" => Core::If { cond: b(g(1))?, then: b(g(2))? },
        "IfElse" => Core::IfElse { cond: b(g(1))?, then: b(g(2))?, el: b(g(3))? },
        "While" => Core::While { cond: b(g(1))?, body: b(g(2))? },
        "For" => Core::For { expr: b(g(1))?, col: b(g(2))?, body: b(g(3))? },
        "FunArg" => Core::FunArg {
            vararg: g(1).as_bool().unwrap_or(false),
            var: b(g(2))?,
            ty: opt(g(3))?,
            default: opt(g(4))?,
        },
        "Type" => Core::Type { lit: s(g(1))?, generics: list(g(2))? },
        t => return Err(format!("unknown Core tag {t}")),
    })
}
