#!/usr/bin/env python3
"""store_seeded.py <worktree> <k> <seeded-id> <property> '<needs>' '<caught_by json>' — copy a confirmed seeded change into
/verif/seeded/<seeded-id>/ with meta.json."""
import json, os, shutil, sys
wt, k, sid, prop, needs, caught = sys.argv[1:7]
src = os.path.join(wt, "SEEDED", k)
dst = os.path.join("/verif/seeded", sid)
os.makedirs(dst, exist_ok=True)
for f in ("patch.diff", "demo_test.rs", "NOTES.md"):
    if os.path.exists(os.path.join(src, f)):
        shutil.copy(os.path.join(src, f), os.path.join(dst, f))
meta = {
    "id": sid, "breaks_property": prop, "needs_to_manifest": needs,
    "origin": "independent sub-agent given only the property text and a scratch worktree of /repo (nothing from /verif)",
    "confirmed_by_me": ["git apply --check on a clean worktree", "cargo build --offline",
                        "demonstration test passes without the patch and fails with it",
                        "REPO_DIR=<worktree> python3 /verif/tools/baseline_off.py: 538/538 stable tests still pass"],
    "detection": json.loads(caught),
    "how_to_rerun": "tools/try_seeded.sh /verif/seeded/%s/patch.diff <ID>..." % sid,
}
json.dump(meta, open(os.path.join(dst, "meta.json"), "w"), indent=1)
print("stored", dst)
