#!/usr/bin/env python3
"""Regenerate /verif/MANIFEST.json from tools/manifest_src.py (single source of truth) and validate it."""
import json, sys, os
sys.path.insert(0, "/verif/tools")
import manifest_src as m
props = [json.loads(l) for l in open("/verif/properties.jsonl")]
ids = [p["id"] for p in props]
checks = []
for pid in ids:
    c = m.CHECKS.get(pid)
    if not c:
        continue
    checks.append({
        "property_id": pid,
        "quick_cmd": "./check %s quick" % pid,
        "thorough_cmd": "./check %s thorough" % pid,
        "evidence_file": "/verif/evidence/%s.json" % pid,
        "replay_cmd_template": "./check %s --replay {path}" % pid,
        "engine": c.get("engine", "hypothesis-sharded"),
        "level_claimed": {"category": c.get("category", "exploration"), "text": c["text"], "design_ref": c["design_ref"]},
        "level_note": c["note"],
        "technique": c["technique"],
    })
na = [{"property_id": pid, "reason": m.NOT_APPLICABLE.get(pid, "check not built yet in this round (planned, see DESIGN.md section 6)")}
      for pid in ids if pid not in m.CHECKS]
man = {
    "version": 1,
    "setup_cmd": m.SETUP,
    "hooks": m.HOOKS,
    "engines": m.ENGINES,
    "checks": checks,
    "notes": m.NOTES,
    "not_applicable": na,
}
json.dump(man, open("/verif/MANIFEST.json", "w"), indent=1)
try:
    import jsonschema
    jsonschema.validate(man, json.load(open("/root/.vp/MANIFEST.schema.json")))
    print("MANIFEST valid: %d checks, %d not claimed" % (len(checks), len(na)))
except ImportError:
    print("jsonschema not importable; written unvalidated")
