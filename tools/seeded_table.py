#!/usr/bin/env python3
"""Regenerate the table of §13 of DESIGN.md from /verif/seeded/*/meta.json (between the SEEDED_TABLE markers)."""
import glob, json, os, re
rows = []
for m in sorted(glob.glob("/verif/seeded/*/meta.json")):
    d = json.load(open(m))
    det = d.get("detection", {})
    rows.append("| %s | %s | %s | %s |" % (d["id"], d["breaks_property"], d["needs_to_manifest"].replace("|", "\\|"),
                                        "; ".join("%s: %s" % (k, v) for k, v in det.items()).replace("|", "\\|")))
table = "| id | property | needs to manifest | detection (quick tier unless stated) |\n|---|---|---|---|\n" + "\n".join(rows)
p = "/verif/DESIGN.md"
s = open(p).read()
if "<!-- SEEDED_TABLE_BEGIN -->" in s:
    s = re.sub(r"<!-- SEEDED_TABLE_BEGIN -->.*?<!-- SEEDED_TABLE_END -->", "<!-- SEEDED_TABLE_BEGIN -->\n" + table.replace("\\", "\\\\") + "\n<!-- SEEDED_TABLE_END -->", s, flags=re.S)
else:
    s = s.replace("SEEDED_TABLE", "<!-- SEEDED_TABLE_BEGIN -->\n" + table + "\n<!-- SEEDED_TABLE_END -->", 1)
open(p, "w").write(s)
print(len(rows), "rows")
