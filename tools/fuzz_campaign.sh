#!/bin/bash
# fuzz_campaign.sh <pipeline|lex> <seconds> <seed> [jobs]   — libFuzzer campaign for the thorough tier of C03 / C18.
# Prints the crash artefacts (if any) one per line as "ARTIFACT <path>"; exit 0 always (the caller judges).
set -u
ROOT="$(cd "$(dirname "$0")/.." && pwd)"
TARGET="$1"; SECS="$2"; SEED="${3:-1}"; JOBS="${4:-16}"
[ "$SEED" = "0" ] && SEED=4242   # 0 means random for libFuzzer
export CARGO_NET_OFFLINE=true
CORPUS="$ROOT/fuzz/corpus/$TARGET"; ART="$ROOT/fuzz/artifacts/$TARGET"
rm -rf "$CORPUS" "$ART"; mkdir -p "$CORPUS" "$ART"
# seed corpus: repository samples and own seeds of at most 1 KiB (skipped silently if absent)
n=0
for f in /repo/tests/resource/valid/*/*.mamba /repo/tests/resource/invalid/*/*/*.mamba /repo/tests/resource/invalid/*/*.mamba "$ROOT"/pbt/seeds/*.mamba; do
  [ -f "$f" ] || continue
  if [ "$(stat -c %s "$f")" -le 1024 ]; then n=$((n+1)); cp "$f" "$CORPUS/seed_$n"; fi
done
# token dictionary
DICT="$ROOT/fuzz/mamba.dict"
python3 - "$DICT" <<'PY'
import sys
kw = ["from","type","class","pure","isa","as","import","forward","vararg","fin","def","mod","sqrt","_and_","_or_","_xor_","_not_","is","and","or","not","raise","when","while","for","in","if","then","match","else","do","continue","break","return","with","handle","pass","self","None","True","False",":=","+=","-=","*=","/=","^=","<<=",">>=","..","..=","::","::=","//","<<",">>",">=","<=","!=","->","=>","?","\\x0a    ","\\x0a        ","\\x0d\\x0a","\\x22","{","}","\\x22\\x22\\x22","Int","Str","Bool","Float","List","Exception","print","__init__"]
with open(sys.argv[1], "w") as fh:
    for i, k in enumerate(kw):
        fh.write('k%d="%s"\n' % (i, k))
PY
cd "$ROOT/harness"
cargo +nightly fuzz run "$TARGET" --fuzz-dir "$ROOT/fuzz" "$CORPUS" -- -artifact_prefix="$ART/" -max_len=1024 -len_control=0 -timeout=120 \
  -rss_limit_mb=4096 -seed="$SEED" -max_total_time="$SECS" -fork="$JOBS" -ignore_crashes=1 -dict="$DICT" > "$ROOT/fuzz/last_$TARGET.log" 2>&1
grep -E "^#[0-9]+: cov|cov: [0-9]+ ft" "$ROOT/fuzz/last_$TARGET.log" | tail -1
for a in "$ART"/crash-* "$ART"/timeout-* "$ART"/oom-*; do [ -f "$a" ] && echo "ARTIFACT $a"; done
exit 0
