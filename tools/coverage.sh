#!/bin/bash
# coverage.sh [ID...]  — measurement tool (not a check): which lines of /repo/src do the quick checks reach?
# Builds the worker with -C instrument-coverage (nightly, its own lock with proc-macro2 1.0.106, scratch dirs under
# /tmp), runs the quick tier of the given properties (default: all) from a scratch copy of /verif so that no evidence
# file of /verif is touched, merges the profiles and prints per-file line coverage plus the uncovered regions of the
# files each property is anchored in. Output: /tmp/cov/report.txt, /tmp/cov/uncovered/<file>.txt. Removes nothing of
# /verif; the scratch dirs /tmp/covh /tmp/covtarget /tmp/cov /tmp/verifcov can be deleted afterwards.
set -u
IDS="${*:-C01 C02 C03 C04 C05 C06 C07 C08 C09 C10 C11 C12 C13 C14 C15 C16 C17 C18 C19 C20}"
TOOLS="$(dirname "$(rustc +nightly --print target-libdir)")/bin"
export CARGO_NET_OFFLINE=true
rm -rf /tmp/covh /tmp/verifcov /tmp/cov; mkdir -p /tmp/covh /tmp/cov/raw
cp -r /verif/harness/src /verif/harness/Cargo.toml /verif/harness/.cargo /verif/harness/Cargo.lock /tmp/covh/
sed -i 's#target-dir = "../target"#target-dir = "/tmp/covtarget"#' /tmp/covh/.cargo/config.toml
(cd /tmp/covh && cargo +nightly update --offline -p proc-macro2 --precise 1.0.106 >/dev/null 2>&1
 RUSTFLAGS="-C instrument-coverage" cargo +nightly build --profile verif --offline 2>&1 | tail -1)
rsync -a --exclude target --exclude .git --exclude work --exclude replays /verif/ /tmp/verifcov/
cd /tmp/verifcov
for id in $IDS; do
  VERIF_ROOT=/tmp/verifcov MVERIF_BIN=/tmp/covtarget/verif/mverif LLVM_PROFILE_FILE="/tmp/cov/raw/$id-%p-%m.profraw" \
    PYTHONHASHSEED=0 PYTHONDONTWRITEBYTECODE=1 VERIF_CASES="${COV_CASES:-}" python3-vt -m pbt.run "$id" quick 2>&1 | grep -E "quick seed|VIOLATION|ERROR" | head -3
  "$TOOLS/llvm-profdata" merge -sparse /tmp/cov/raw/$id-*.profraw -o /tmp/cov/$id.profdata 2>/dev/null && rm -f /tmp/cov/raw/$id-*.profraw
done
"$TOOLS/llvm-profdata" merge -sparse /tmp/cov/C*.profdata -o /tmp/cov/all.profdata
"$TOOLS/llvm-cov" report /tmp/covtarget/verif/mverif -instr-profile=/tmp/cov/all.profdata --ignore-filename-regex='(\.cargo|rustc|harness|covh)' > /tmp/cov/report.txt 2>/dev/null
"$TOOLS/llvm-cov" show /tmp/covtarget/verif/mverif -instr-profile=/tmp/cov/all.profdata --ignore-filename-regex='(\.cargo|rustc|harness|covh)' --show-line-counts-or-regions > /tmp/cov/show.txt 2>/dev/null
tail -1 /tmp/cov/report.txt
