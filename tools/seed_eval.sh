#!/bin/bash
# seed_eval.sh <ID> [<check ID>...] — confirm every change delivered in /tmp/wt_<ID>/SEEDED/<k> and run the quick checks
# (default: the property's own) against it through the worktree (tools/try_seeded_wt.sh). Log: /tmp/seedlogs/<ID>.log
ID="$1"; shift; CHECKS="${*:-$ID}"
WT=${WTPREFIX:-/tmp/wt_}$ID; mkdir -p /tmp/seedlogs; LOG=/tmp/seedlogs/${LOGTAG:-}$ID.log; : > $LOG
export CARGO_TARGET_DIR=$WT/target
for d in $WT/SEEDED/*/; do
  k=$(basename $d)
  echo "=== $ID/$k confirm" >> $LOG
  /verif/tools/confirm_seeded.sh $WT $k 2>&1 | grep -v WARNING >> $LOG
  echo "=== $ID/$k checks" >> $LOG
  /verif/tools/try_seeded_wt.sh $WT $d/patch.diff $CHECKS 2>&1 | grep -v WARNING >> $LOG
done
echo "=== done" >> $LOG
