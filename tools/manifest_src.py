SETUP = "cd harness && CARGO_NET_OFFLINE=true cargo build --profile verif --offline"
HOOKS = {
    "guard": "cargo feature verif_hooks",
    "enable": "the worker crate /verif/harness depends on mamba by path with features=[\"verif_hooks\"]; every check command rebuilds it from /repo's working tree",
    "baseline_off_cmd": "python3 /verif/tools/baseline_off.py",
    "source_commits": ["1f5d971"],
    "add_only": True,
}
ENGINES = [
    {"name": "hypothesis-sharded", "path": "/verif/pbt/engine.py",
     "serves_properties": [],
     "kind_free_text": "Hypothesis (python3-vt) sharded over 16 processes, each driving one isolated Rust worker (/verif/harness) that calls mamba's public entry points; oracles live in Python"},
]
NOTES = "Property-based testing and fuzzing only. See DESIGN.md. Known findings: /verif/known_findings.json."
NOT_APPLICABLE = {}
CHECKS = {
    "C04": {
        "text": "Execution of everything the checker accepts: an exhaustive operator x operand-type matrix (23 binary operators x 15 x 15 operand types incl. tuples, lists of tuples and dicts, with variables and literals, unary operators, index, call, range bounds, function / method arguments, tuple parameters, destructuring, attribute, interpolation, iteration, conditions, conversions, raise arguments, assignments, returns, and every compound assignment x seven targets x 16 operand types with the target used as its declared type afterwards: ~13k programs), CoreGen programs with 0-3 type-changing edits, the conforming and mutated cases of the C05/C06/C07/C09 generators and generated constructors (fields assigned in loops that may run zero times, on one side of a branch only). Violation iff the run ends in TypeError, AttributeError, NameError or UnboundLocalError.",
        "design_ref": "DESIGN.md section 6 C04",
        "note": "Only the four exception classes of the statement count. Programs run in-process with a traced-line budget. Matrix cells and edit shapes of the open findings are excluded by construction and counted.",
        "technique": "property-based testing: exhaustive operator/type matrix + type-changing edits, executed against a 'does not go wrong' oracle (Hypothesis)",
    },
    "C09": {
        "text": "Three generators. (1) 18 reject and 13 accept shapes of a read relative to its definition x 5 forms of use x 12 positions. (2) ScopeGen: shadow-heavy programs generated statement by statement together with a model of block scoping (definitions, tuple definitions, loop variables, match bindings, handle variables, parameters, functions, methods); every statement is legal under the model, optionally one read of a name that is not defined on every path is planted at a random slot. (3) explicit __init__ bodies over five fields with the set of definitely assigned fields as model (if/else, if, match, for, nested writes, a parent declaring the same field names); faults: read before assignment, nested write through an unassigned field, field not assigned on every path. Verdict oracle from the model; every accepted program is executed and must not raise NameError / UnboundLocalError / AttributeError. ~24k cases per quick run.",
        "design_ref": "DESIGN.md section 6 C09",
        "note": "'Defined in both branches, used after' and the visibility of a variable inside the arms of its own `def x := e handle` are asserted in neither direction. A legal ScopeGen program that is rejected is reported only when a diagnostic speaks of an undefined name / unassigned field (the checker's inference gives up on some shadow-heavy programs; counted, left to C05). One open finding (assignment to a top-level variable inside a function lacks `global`) keeps that use form at top level.",
        "technique": "property-based testing: model-based program generation (scoping / definite-assignment model carried by the generator) with planted faults, verdict oracle from the model and execution of accepted programs (Hypothesis)",
    },
    "C08": {
        "text": "Generated exception forests, a raising callee and an enclosing function or method whose body is a random tree of raising sites nested in branches, loops, match arms, sequences and handles (guarded call, sites inside arms, sites after the handle), with the raise declaration drawn exact / empty / ancestors / random / non-exception; handles with 1-3 arms in any order (descendant before ancestor, Exception anywhere), signatures without body that declare raises before the function; a coverage model decides the expected verdict, and every accepted conforming program is executed: a driver appended to the emitted module calls the function for six arguments (no raise, each class of the callee, the direct raise) and the printed trace plus the class that leaves the function are compared with the generator's own reference interpreter. ~32k cases per quick run, ~20k of them executed.",
        "design_ref": "DESIGN.md section 6 C08",
        "note": "Both halves of the statement are judged: the verdict and, at run time, which arm runs and what escapes (C01 executes handles as well). Every generated block ends in a print so that value-typing of tails cannot interfere. Callee methods are outside the statement.",
        "technique": "property-based testing: generated handler/declaration structures against a coverage model (verdict) and a reference interpreter (run-time trace of the emitted Python) (Hypothesis)",
    },
    "C07": {
        "text": "Two generators. (1) 12 definition forms (fin or mutable) x 4 assignment operators x 12 positions x 0-2 shadowing re-definitions, plus assignment to undefined names. (2) ScopeGen: shadow-heavy programs over small name pools generated together with a model of scoping and mutability (plain / annotated / tuple / annotated tuple definitions, loop variables, bindings, parameters, fin self, fin receivers, nested blocks, functions, methods); every assignment is legal under the model, optionally one assignment to a fin / undefined target (variable, tuple component, field through fin self / fin receiver) is planted. Verdict oracle: reject iff the visible definition, the receiver or self is fin, or the name is undefined. ~32k cases per quick run.",
        "design_ref": "DESIGN.md section 6 C07",
        "note": "For-loop variables and mutating method calls on fin receivers are not judged. One open finding family (fin fields are not protected) redirects three definition forms.",
        "technique": "property-based testing: model-based program generation (scope / mutability model) with planted illegal assignments, plus a definition-form x position matrix (Hypothesis)",
    },
    "C06": {
        "text": "Enumerated matrix inside generated surroundings: 18 consuming positions (incl. an explicit argument for a parameter with a default value of a function / method / class / __init__, and the first, a later and a one-path-only assignment to a field inside an explicit constructor) x 5 sources of null (of the required type or of a proper subtype: Int? into Float, B? into A) x 4 types for the reject direction, 15 positions x 4 flows x 4 types for the accept direction, each planted at one of 12 statement positions; ~8k cases per quick run, verdict oracle in both directions, matrix counts in the evidence.",
        "design_ref": "DESIGN.md section 6 C06",
        "note": "`x ? d` only with a variable on the left; field reads through nullable receivers are left to C04; unexpected verdicts are re-run 10x (C12).",
        "technique": "property-based testing: position x source matrix with a verdict oracle in both directions (Hypothesis)",
    },
    "C05": {
        "text": "Three generators. (nest) NestGen: blocks nested up to depth 4 (if/else, match, loops, handle; top level, function, method) with annotated definitions at every level and uses of any visible definition at deeper levels; 2/3 of the cases replace one use by a literal or by another visible variable of a definitely non-conforming type. (chain) chains of 3-4 classes with a method overridden further down with an unrelated parameter type; calls through instances and through self conform iff they conform to the nearest definition. (targeted) a fully annotated world plus one generated target (function/method/constructor signature, annotated definition, declared return type, an annotated definition that re-defines a name and mentions the old variable in its initialiser; class headers mix plain and def parameters in any order) and one use planted at one of 12 positions; 2/7 conforming (must be accepted), 5/7 with one single-point non-conforming mutation (must be rejected with diagnostics). ~11k cases per quick run; the kind x position x mutation histogram is part of the evidence.",
        "design_ref": "DESIGN.md section 6 C05",
        "note": "Subtyping used for 'conforming' is exactly Int <: Float, B <: A, T <: Any; undocumented pairs are never used. Unexpected verdicts are re-run 10x (C12). Two open over-rejection findings steer the value generator.",
        "technique": "property-based testing: generated nested programs / class chains with one planted non-conforming use, and single-point mutation of targeted conforming uses; verdict oracle from the declared signatures (Hypothesis)",
    },
    "C15": {
        "text": "Metamorphic check: CoreGen, API-shaped (members in any order) and WideGen programs and an injective renaming of their user-chosen names into ordinary and special-looking names, chains of prefix-related names, (a quarter of the cases) a renaming under which any two identifiers are prefix-related, and programs whose names are re-defined with other types where one name is renamed to another name plus a mangling-style suffix (count next to count_1); verdicts must agree, the output of the renamed program must be the renamed output (Python ast), and no renamed name may capture an identifier the generator itself introduced (scope-aware, via symtable). Two open findings remove the names they concern from the pool.",
        "design_ref": "DESIGN.md section 6 C15",
        "note": "User names are recognised by their letters+number form (every generator numbers its identifiers); generator-introduced names are read off out(P). Verdict differences are re-run 10x to separate them from C12's nondeterminism.",
        "technique": "property-based testing: metamorphic relation under alpha-renaming with a scope-aware capture oracle (Hypothesis)",
    },
    "C16": {
        "text": "Generated programs in which every support-import trigger (sqrt, nullable/union/tuple/callable/Any types, type aliases, interfaces) occurs at drawn positions with user imports, plus API-shaped, CoreGen and WideGen programs (unions with nullable members, user imports of math / typing before and after the use), both annotate settings; the emitted module is analysed statically (ast + symtable): no unbound global read, each mentioned support name imported exactly once (plus the user's own imports of that name, reproduced where they stand) before first use, user imports reproduced.",
        "design_ref": "DESIGN.md section 6 C16",
        "note": "symtable/ast of CPython 3.11 decide scoping; reads in annotations count; nothing is executed.",
        "technique": "property-based testing: generated trigger x position programs with a static free-name / import oracle (Hypothesis)",
    },
    "C17": {
        "text": "Generated API-shaped programs (functions with defaults/varargs, classes with arguments, parents with arguments, several parents, interfaces, body-less types that name a parent interface and are implemented by classes, methods, operator definitions, members and definitions in random order), both annotate settings; the expected Python API is computed from the model and compared with FunctionDef/ClassDef nodes of the emitted module.",
        "design_ref": "DESIGN.md section 6 C17",
        "note": "Operator-to-dunder table taken from src/check/context/function/python.rs; only structure is compared, nothing is executed.",
        "technique": "property-based testing: model-derived expected API vs emitted ast (Hypothesis)",
    },
    "C20": {
        "text": "Complete tabulation of is_superset_of over a finite universe per generated hierarchy (every plain class of the context incl. user classes whose parents are instantiations of a generic class and one that reaches the same generic class twice with different arguments, List/Set/Dict/Tuple/Collection instantiations to depth 2 incl. 2-3-argument generics that differ in the first / middle / last argument, nullable variants, unions of two, mixed-nullability unions, both bracketings of unions of three, and names the checker itself builds from source annotations: twins of constructed names and source-written unions in every nullability pattern; ~300-500 terms, all ordered pairs, twice from freshly built names) and exhaustive evaluation of the order and union laws on the matrix; Hypothesis varies the hierarchy.",
        "design_ref": "DESIGN.md section 6 C20",
        "note": "Reference order on plain classes = closure of the parents the context itself reports. Variance of generics is not asserted, only that instantiations whose arguments are unrelated in some position are unrelated; None-vs-Any is not asserted. Function types only for reflexivity. The worker's lattice op only tabulates.",
        "technique": "property-based testing: exhaustive small-scope enumeration of a relation per generated hierarchy, algebraic-law oracle (Hypothesis)",
    },
    "C19": {
        "text": "Fault injection at a known line of accepted generated programs and samples (9 fault kinds incl. a return annotation that disagrees with a value returned lines below and a faulty token behind a string literal full of escape sequences at the end of its line; a fifth of the faulty files with CRLF line ends; top level and nested blocks, 40% after a prelude with line breaks inside string literals / doc-strings, single- and multi-file), mutated samples, all invalid repository samples and a catalogue of context/lexical/end-of-input errors; the rendered diagnostics are parsed leniently and judged against the source text (path, line/column range, verbatim quoted lines, fault line reported).",
        "design_ref": "DESIGN.md section 6 C19",
        "note": "Judges the rendered strings returned by mamba_to_python (what a user sees); the TypeErr.causes hook is not needed. Statements are injected only between two complete one-line statements of equal indentation; injected literals are unique in the file (open finding F37).",
        "technique": "property-based testing: fault injection with a positional/well-formedness oracle over rendered diagnostics (Hypothesis)",
    },
    "C13": {
        "text": "Generated projects (1-5 files, nested directories, cross-file class/function use, files with interfaces / marker types / nullable, tuple and function annotations / sqrt (imports the generator adds per file), optional single faulty file, zero-byte / newline-only / comment-only files, fresh or pre-populated output directory incl. longer outputs of an earlier run at the output paths, custom directory names, second runs after one file was made shorter / longer) run through mamba::transpile_dir in a scratch directory with a before/after snapshot of the whole tree, plus permutations of the file list, an added unrelated file and a removed used file through mamba_to_python.",
        "design_ref": "DESIGN.md section 6 C13",
        "note": "The binary's main() only parses options and calls transpile_dir; the check drives transpile_dir directly. Work directories under /verif/work are removed after each case.",
        "technique": "property-based testing: generated project histories with file-system snapshot invariants and permutation/extension/removal metamorphic relations (Hypothesis)",
    },
    "C14": {
        "text": "Metamorphic check over ~3k (quick) generated programs (CoreGen, typed expressions, API-shaped, WideGen) and repository samples: a variant with 1-4 layout trivia (trailing/whole-line comments, blank and whitespace-only lines, trailing spaces, final newline, CRLF, doubled grouping parentheses, new redundant parentheses around a prefix of an attribute chain / a whole right-hand side / an operand; blank lines preferably where the grammar takes exactly one line break) must get the same verdict and byte-identical Python (equal Python ast for parentheses).",
        "design_ref": "DESIGN.md section 6 C14",
        "note": "Code lines are recognised by quote parity (inputs with multi-line strings are replaced by a fixed program); verdict differences are re-run 12x to separate them from C12's nondeterminism.",
        "technique": "property-based testing: metamorphic relation under layout-preserving transformations (Hypothesis)",
    },
    "C12": {
        "text": "History/schedule invariant over one input: every generated program, repository sample, two-file project and a fixed list of ~110 verdict-edge programs (mixed Int / Float operators in both orders, a field a child re-declares with another type) is transpiled >=20 times (same process, concurrent threads, fresh processes, after a history of other inputs in another process, and at the end of a same-thread history of related programs: same classes with other types, a type fault appended, a syntax fault); verdicts must agree and successful outputs must be byte-identical. Each repetition redraws the hash seeds, which is the only schedule-dependent input of a program without shared state.",
        "design_ref": "DESIGN.md section 6 C12",
        "note": "Thread interleavings are not controlled (no shared mutable state in src/); a two-outcome dependence with probability p is missed with probability about (1-p)^20 + p^20 per input.",
        "technique": "property-based testing: repeated-run / multi-thread / multi-process determinism oracle over generated inputs (Hypothesis)",
    },
    "C02": {
        "text": "Generated-input search: CoreGen and typed-expression programs, WideGen programs (builders with conditions, unions / tuples / function types in every annotation position, with, vararg, doc-strings, imports, ...), all repository samples, their token-level mutations, a literal/identifier stress generator and a shape stress generator (parameter lists x definition sites, definition targets x initialiser forms, value positions x if / match forms, nested ternaries with blocks, operand forms Python does not take bare - not, signs, conditional expressions - below every kind of binary operator in nine statement positions), both annotate settings; every emitted module must pass CPython's compile(). Sampled; the input class of the open known finding F27 is filtered on the input and counted.",
        "design_ref": "DESIGN.md section 6 C02",
        "note": "CPython 3.11 is 'the Python 3 compiler'; only compile(), never execution.",
        "technique": "property-based testing: grammar-based and mutation-based generation against CPython's compiler as oracle (Hypothesis)",
    },
    "C11": {
        "text": "Differential check over ~4k (quick) generated programs (CoreGen, typed expressions, API-shaped incl. vararg, WideGen), 1-mutation variants and every repository sample: annotate off vs on must give the same verdict and, after syntactic erasure of annotations and unused typing imports, identical Python ASTs.",
        "design_ref": "DESIGN.md section 6 C11",
        "note": "Erasure rules: AnnAssign->Assign, argument/return annotations dropped, unused `typing` imports dropped; unparsable output is left to C02.",
        "technique": "property-based testing: metamorphic/differential comparison of two configurations (Hypothesis)",
    },
    "C01": {
        "text": "Differential execution: ~2400 (quick) / ~100k (thorough) generated well-typed programs of the executable core language, transpiled with annotate off and on, executed in-process and compared (printed strings, uncaught exception class) with an independent reference interpreter of the model. Constructs include match over tuple subjects with literal / wildcard tuple patterns, handles with unnamed arms, early returns, arithmetic towers. Construct x context coverage is counted per run. Sampled, not exhaustive.",
        "design_ref": "DESIGN.md section 6 C01, section 3.1",
        "note": "Trusted: the reference interpreter pbt/model.py and its assumptions S1-S12 (documented semantics; operators are CPython's); CPython 3.11 executes the output. Constructs the docs leave open are not generated. Rejected programs are not judged here.",
        "technique": "property-based testing: type-directed program generation + differential execution against a reference interpreter (Hypothesis)",
    },
    "C10": {
        "text": "Finite enumeration (435k trees: every parent/slot/child and parent/slot/child/slot/grandchild combination and every binary parent with two compound children over 49 constructors incl. the desugared shapes) of hand-built Core trees printed by mamba's Display, plus random deeper trees, end-to-end Mamba expressions in 10 statement contexts, a deterministic stress list of ~1100 source expressions (signed literals and names in every operand slot of every operator, comparisons as operands of comparisons), and nested tuples / lists / call arguments / builder conditions in 12 statement contexts judged by the values the emitted module prints; round-trip oracle: CPython's ast.parse of the printed text must equal the tree. The enumeration is complete for its stated sub-space; deeper trees are sampled.",
        "design_ref": "DESIGN.md section 6 C10, appendix A",
        "note": "Trusted: CPython 3.11 ast.parse as definition of Python grouping; the Core->ast table (appendix A); and/or compared after flattening same-operator chains. Invalid emitted Python is left to C02.",
        "technique": "property-based testing: exhaustive small-scope enumeration + random trees + end-to-end round-trip through CPython's parser (Hypothesis)",
    },
    "C18": {
        "text": "Exhaustive enumeration of all ordered pairs of the token vocabulary (38k inputs, both spacings, two indents) plus ~40k generated inputs per quick run (mutated samples, random vocabulary sequences, random layouts with empty/multi-line/interpolated strings, doc-strings, CRLF) through the guarded lexer hook; each accepted input is judged by a span/spelling/order/balance/round-trip oracle written against the source text, not against the lexer.",
        "design_ref": "DESIGN.md section 6 C18",
        "note": "Columns judged on ASCII inputs only; nominal width of synthetic tokens not judged; NL tokens need not be ordered among themselves. Uses the guarded hook mamba::verif_hooks::lex (re-export of the private tokenizer).",
        "technique": "property-based testing: exhaustive pair enumeration + generated inputs against a positional/round-trip oracle (Hypothesis)",
    },
    "C03": {
        "text": "Generated-input search for crashes and hangs: ~40k (quick) / ~1M (thorough) mutated, random and adversarial inputs (incl. freshly generated WideGen / API / ScopeGen / shape-stress programs as mutation bases and a catalogue of every special name in every defining position) per run through the real pipeline in an isolated worker; every panic, abort or confirmed CPU time-out is a violation. Absence is not established; the claim is 'no crash on everything generated within the stated size bounds'.",
        "design_ref": "DESIGN.md section 6 C03",
        "note": "Worker thread stack = 8 MiB (main-thread stack of the product), overflow checks on; inputs bounded to 1 KiB / 200 lines / nesting 40 / 4 files; time bound 120 s thread-CPU.",
        "technique": "property-based testing: token-level mutation fuzzing + adversarial catalogue against a crash/termination oracle (Hypothesis)",
    },
}
