#!/usr/bin/env python3
"""tier_table.py — print the measured quick-tier table (markdown) from /verif/evidence/*.json."""
import glob, json
print("| id | seed | evaluations | distinct non-trivial | known findings reproduced | violations | wall (s) |")
print("|---|---|---|---|---|---|---|")
for f in sorted(glob.glob("/verif/evidence/C*.json")):
    e = json.load(open(f))
    c = e["coverage"]
    print("| %s | %s | %s | %s | %s | %s | %.0f |" % (e["property_id"], e["seed"], format(c["evaluations"], ",").replace(",", " "),
                                                    format(c["distinct_nontrivial"], ",").replace(",", " "),
                                                    c.get("known_findings_reproduced", 0), e["violations"], e["wall_s"]))
