#!/usr/bin/env python3
"""Dev aid: verdict of every repository sample (valid/invalid) with the current worker; prints a digest and the
list of valid samples that are rejected / invalid samples that are accepted."""
import sys, json, hashlib
sys.path.insert(0, "/verif")
from pbt import corpus
from pbt.worker import Worker
w = Worker()
res = {}
for kind in ("valid", "invalid"):
    for name, text in corpus.repo_samples(kind):
        r = w.transpile1(text, True)
        res[kind + "/" + name] = "ok" if "ok" in r else "err" if "err" in r else "crash"
w.close()
bad_valid = sorted(k for k, v in res.items() if k.startswith("valid/") and v != "ok")
bad_invalid = sorted(k for k, v in res.items() if k.startswith("invalid/") and v != "err")
print("valid rejected:", len(bad_valid), "invalid accepted:", len(bad_invalid))
if "-v" in sys.argv:
    for k in bad_valid: print("  valid but rejected:", k)
    for k in bad_invalid: print("  invalid but accepted:", k)
print(hashlib.sha1(json.dumps(res, sort_keys=True).encode()).hexdigest())
json.dump(res, open("/tmp/sample_verdicts.json", "w"), indent=0, sort_keys=True)
