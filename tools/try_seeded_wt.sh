#!/bin/bash
# try_seeded_wt.sh <worktree> <patch.diff> <ID> [<ID>...] — run the quick checks against a seeded change WITHOUT touching
# /repo: the patch is applied in the scratch worktree, a copy of the worker crate is built against that worktree (own
# target dir inside the worktree), the checks run from a scratch copy of /verif (so /verif/evidence is not rewritten),
# and the worktree is restored afterwards. Several of these can run side by side. Prints "<ID> rc=<code> <summary>".
# For experiments only; the registered checks always run against /repo itself.
set -u
WT="$1"; PATCH="$2"; shift 2
H="$WT/.verif_harness"; V="$WT/.verif_copy"
export CARGO_NET_OFFLINE=true
git -C "$WT" checkout -q -- . || exit 2
trap 'git -C "$WT" checkout -q -- . ; rm -rf "$V"' EXIT
git -C "$WT" apply "$PATCH" || { echo "patch does not apply"; exit 2; }
rm -rf "$H" "$V"; mkdir -p "$H"
cp -r /verif/harness/src /verif/harness/Cargo.toml /verif/harness/Cargo.lock /verif/harness/.cargo "$H/"
sed -i "s#path = \"/repo\"#path = \"$WT\"#" "$H/Cargo.toml"
sed -i "s#target-dir = \"../target\"#target-dir = \"$WT/.verif_target\"#" "$H/.cargo/config.toml"
unset CARGO_TARGET_DIR
(cd "$H" && cargo build --profile verif --offline --target-dir "$WT/.verif_target" >"$WT/.verif_build.log" 2>&1) || { tail -20 "$WT/.verif_build.log"; echo "worker build failed"; exit 2; }
rsync -a --exclude target --exclude .git --exclude work --exclude replays /verif/ "$V/"
cd "$V"
for id in "$@"; do
  out=$(VERIF_ROOT="$V" MVERIF_BIN="$WT/.verif_target/verif/mverif" MAMBA_REPO="$WT" PYTHONHASHSEED=0 PYTHONDONTWRITEBYTECODE=1 \
        python3-vt -m pbt.run "$id" quick 2>&1); rc=$?
  echo "$id rc=$rc $(echo "$out" | grep -E "quick seed|INFRA|INCONCLUSIVE" | tail -1)"
  echo "$out" | grep -E "^  what:|^VIOLATION" | head -4; [ "$rc" = "2" ] && echo "$out" | tail -12
  [ "$rc" = "1" ] && mkdir -p /tmp/seedreplays && cp -r "$V/replays/$id" "/tmp/seedreplays/$(basename $WT)_$(basename $(dirname $PATCH))_$id" 2>/dev/null
done
