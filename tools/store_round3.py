#!/usr/bin/env python3
"""store_round3.py — copy the confirmed round-3 seeded changes from their scratch worktrees (/tmp/w3_<ID>/SEEDED/<k>) into
/verif/seeded/<ID>-r3-<k>/ with meta.json. The table below is what I recorded while evaluating them (tools/seed_eval.sh,
tools/try_seeded_wt.sh); `first` is the result against the checks as they stood when the change arrived, `now` after
strengthening. Run once at the end of the round; the directories it writes are what is committed."""
import json, os, shutil, subprocess, sys

R = {
 "C01": [("a match with tuple patterns where a case that is not the last has a `_` (or a name) element next to a literal element, and a subject that a later case should take (cases after it are not emitted)",
          "missed", "C01: caught after strengthening (CoreGen: tuple subjects and tuple patterns of literals and wildcards in match statements and tails)"),
         ("a one-line if / else in the middle of a function body (or in a loop body) of which exactly one branch is `return e` and the other an expression with a value, the returning branch taken at run time",
          "C01: caught", "C01: caught")],
 "C02": [("a parameter list (function, method, class arguments) with three or more parameters in which a name is repeated with another parameter in between (a, b, a): accepted, emitted as duplicate argument", "C02: caught", "C02: caught"),
         ("a `not` expression as operand of a comparison, arithmetic or bitwise operator (a = not b): printed without parentheses, a SyntaxError",
          "C10: caught (16 violations, printer tree round-trip); C02: caught in one of two runs (1 violation)",
          "C10: caught; C02: operand_forms added (not / signs / conditional expressions below every kind of binary operator in nine statement positions)")],
 "C03": [("two or more input files and a context error that only exists for the combination (an inheritance cycle that runs through several files): panic instead of a diagnostic", "C03: caught", "C03: caught"), ("string literals nested inside interpolated expressions about 20 levels deep (lexing time doubles per level)", "C03: caught (CPU-time bound)", "C03: caught")],
 "C04": [("a class with a non-nullable field without initialiser whose only assignment in __init__ stands in a for / while body, constructed with arguments that make the loop run zero times, the field then used as its type",
          "C04: missed; C09: caught (constructor generator: field not assigned on every path)",
          "C04: caught after strengthening (constructor programs with loops that may run zero times are executed); C09: caught"),
         ("a compound assignment whose operator result does not fit the target (k /= 2 on an Int), the target then used where only an Int works (index, range bound)",
          "missed", "C04: caught after strengthening (compound-assignment cells of the matrix: operator x target x operand type, target used as its declared type)")],
 "C05": [("an annotated definition that re-defines a visible name and mentions the old variable in a non-conforming initialiser (def n: Str := twice(n))",
          "missed", "C05: caught after strengthening (init_shadow cases)"),
         ("a class header with a plain constructor parameter before a `def` parameter and a constructor call (parameters re-ordered in the context)",
          "C05: caught", "C05: caught")],
 "C06": [("the FIRST assignment to a non-nullable field without initialiser inside an explicit __init__, with None or a T? value",
          "missed (C06 and C09)", "C06: caught after strengthening (constructor-field consumers)"),
         ("an explicit None / T? argument for a non-nullable parameter that has a default value (top-level function or constructor)",
          "missed (C06 and C09)", "C06: caught after strengthening (defaulted-parameter consumers)")],
 "C07": [("def fin NAME := <expr> handle <cases> after an earlier mutable definition of NAME, and an assignment to NAME after the handle or in a case", "C07: caught; the first run was made after ScopeGen had been given fin handle definitions, which I added on reading the description of this change (the generator before that had no such shape and would have missed it)", "C07: caught"),
         ("an assignment whose target is a tuple that contains a nested tuple, the fin name at a flattened position >= the number of top-level elements ((a, (b, FIN)) := ..)", "C07: caught; the first run was made after ScopeGen had been given nested tuple targets, added on reading the description of this change (the generator before that had no such shape and would have missed it)", "C07: caught")],
 "C08": [("a signature WITHOUT body that declares raise [E] (forward declaration, abstract method) and, later in the same block, a function that calls something raising E without handling or declaring it",
          "missed (C08 and C01)", "C08: caught after strengthening (signatures without body before the enclosing function)"),
         ("a handle with two arms whose classes are related, the DESCENDANT's arm before the ANCESTOR's, and the ancestor class raised at run time (the ancestor's except clause is not emitted)",
          "missed (C08 and C01)", "C08: caught after strengthening (run-time stage: trace and escaping class of encl(x) against the reference interpreter)")],
 "C09": [("a call through a variable of function type whose argument reads an undefined name (gi(cb(x)))", "missed", "C09: caught after strengthening (ScopeGen: callable parameter, reads inside its arguments)"),
         ("an undefined name as left operand of isa", "C09: caught", "C09: caught")],
 "C10": [("a comparison / identity / membership whose LEFT operand is a parenthesised comparison ((a < b) = c): printed bare, Python chains it",
          "C10: caught", "C10: caught"),
         ("a negated real literal between parentheses as base of ^ ((-1.5) ^ 2): folded into a signed literal and printed without parentheses",
          "missed", "C10: caught after strengthening (deterministic sign / chained-comparison stress list)")],
 "C11": [("a module that starts with a doc-string, has a statement after it, and needs a typing import only with annotate on (the statement after the doc-string is dropped)",
          "missed", None),
         ("a lambda with a parameter that has a default value and no declared type, annotate on (annotated lambda parameter, a SyntaxError)",
          "missed", None)],
 "C12": [("a / with an Int left operand and a Float right operand (two __truediv__ overloads in a hash set: the verdict flips from run to run)",
          "C12: caught (1 violation)", None),
         ("a child class that declares a parent's field again with another type, the field read through the child where the type matters",
          "missed", None)],
 "C13": [("two or more files of which one that is not last makes the generator add a from-import (interface, type alias, typing names with annotate): the import shows up in every later file's output",
          "missed", None),
         ("directory mode with a directory level that holds only sub-directories (no .mamba file of its own)", "C13: caught", "C13: caught")],
 "C14": [("a reassignment whose target is a chain of two or more accesses with redundant parentheses around a prefix that contains an access ((self.b).v += 1)",
          "missed by the check as it stood (its `caught` of the first pass was the clean-tree defect F74, repaired since)", None),
         ("CRLF line ends (or spaces-only lines), no comment and no LF LF anywhere in the file, an empty line where the grammar takes exactly one line break (between match / handle arms, between a then block and else)",
          "missed by the check as it stood (see C14-r3-1)", None)],
 "C15": [("an unannotated def (x, y) := <tuple of two types> with a later type-dependent use, renamed so that the alphabetical order of the two names changes",
          "C15: caught", "C15: caught"),
         ("a variable defined twice (shadowed) and another live variable of another type renamed to exactly <name>_1 (internal name of the shadowing definition)",
          "missed", None)],
 "C16": [("a marker interface (type without body and without parent) with no other type definition in the module: class Marker(ABC) without the import",
          "missed", None),
         ("annotate off and a nullable / tuple / union / function type in a position that is written regardless of the flag (per-branch assignments of an if / match definition, the declaration before a try)",
          "C16: caught", "C16: caught")],
 "C17": [("a type without body and without condition that names a parent (type Solid: Shape), emitted as NewType; subclassing it fails at import",
          "missed", None),
         ("two or more sources in one call, given with paths, listed in another order than the ascending order of the paths (outputs come back sorted)",
          "missed (C17 is single-file)", None)],
 "C18": [("a doc-string with a line break whose closing quotes stand at least two columns left of its opening quotes", "C18: caught", "C18: caught"),
         ("an integer literal with redundant leading zeros (007): later tokens of the line move left", "C18: caught", "C18: caught")],
 "C19": [("CRLF line ends and a fault on any line but the first (every CRLF counted as two lines)", "missed", None),
         ("a single-line string literal with escape sequences and the faulty token behind it at the end of the same line", "missed", None)],
 "C20": [("a class with two parents that reach the same generic class with different arguments (class Q: P1, P2 with P1: Collection[Int], P2: Collection[Str]) and a query for the second instantiation",
          "missed", None),
         ("generic nesting of depth 2 whose inner types name the same class with unrelated arguments (List[List[Str]] into List[List[Int]])", "C20: caught", "C20: caught")],
}

def main():
    now_file = sys.argv[1] if len(sys.argv) > 1 else ("/verif/seeded/round3_results.json" if os.path.exists("/verif/seeded/round3_results.json") else None)
    now = json.load(open(now_file)) if now_file else {}
    head = subprocess.check_output(["git", "-C", "/repo", "log", "--format=%h", "-1"]).decode().strip()
    for pid, rows in sorted(R.items()):
        for k, (needs, first, after) in enumerate(rows, 1):
            sid = "%s-r3-%d" % (pid, k)
            src = "/tmp/w3_%s/SEEDED/%d" % (pid, k)
            dst = "/verif/seeded/" + sid
            if os.path.isdir(src):
                os.makedirs(dst, exist_ok=True)
                for f in ("patch.diff", "demo_test.rs", "NOTES.md"):
                    if os.path.exists(os.path.join(src, f)):
                        shutil.copy(os.path.join(src, f), os.path.join(dst, f))
            if not os.path.isdir(dst):
                print("missing", sid)
                continue
            after = now.get(sid, after)
            applies = subprocess.call(["git", "-C", "/repo", "apply", "--check", os.path.join(dst, "patch.diff")],
                                      stderr=subprocess.DEVNULL) == 0
            meta = {
                "id": sid, "breaks_property": pid, "round": 3, "needs_to_manifest": needs,
                "origin": "independent sub-agent given only the property text and a scratch worktree of /repo (nothing from /verif), "
                          "told which mechanisms rounds 1 and 2 had used and asked for other ones",
                "confirmed_by_me": ["git apply --check on a clean worktree", "cargo build --offline",
                                    "demonstration test passes without the patch and fails with it (tools/confirm_seeded.sh)",
                                    "REPO_DIR=<worktree> python3 /verif/tools/baseline_off.py: 538/538 stable tests still pass"],
                "detection": {"when_delivered": first, "now": after or first},
                "how_to_rerun": "tools/try_seeded_wt.sh <worktree of /repo HEAD> /verif/seeded/%s/patch.diff <ID>..." % sid,
                "applies_to_repo_head": {"commit": head, "applies": applies},
            }
            if sid == "C06-r3-1":
                meta["rebased"] = ("the author's patch was written against 1f1d639; fixes 3012243 and 2a0c413 changed the same lines, so I "
                                   "ported the change (skip generating the target of a first assignment) to the repaired code; the "
                                   "demonstration still passes without and fails with the ported patch (tools/confirm_seeded.sh at 04eec6f)")
            json.dump(meta, open(os.path.join(dst, "meta.json"), "w"), indent=1)
            print("stored", sid, "applies" if applies else "DOES NOT APPLY")

main()
