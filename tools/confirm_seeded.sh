#!/bin/bash
# confirm_seeded.sh <worktree> <k>  — independently confirm a seeded change delivered in <worktree>/SEEDED/<k>:
# patch applies to the clean worktree, builds, the 538 stable tests still pass, the demonstration fails with the patch
# and passes without it. Leaves the worktree clean. Prints a one-line verdict per step.
set -u
WT="$1"; K="$2"; S="$WT/SEEDED/$K"
export CARGO_TARGET_DIR="${CARGO_TARGET_DIR:-/tmp/cargo_target_confirm}"
cd "$WT" || exit 2
git checkout -q -- . ; rm -f tests/zz_seeded_demo.rs
git apply --check "$S/patch.diff" || { echo "APPLY: FAIL"; exit 1; }
cp "$S/demo_test.rs" tests/zz_seeded_demo.rs
# without the patch: demo must pass
if cargo test --offline --test zz_seeded_demo >/tmp/confirm_demo_clean.log 2>&1; then echo "DEMO-CLEAN: pass"; else echo "DEMO-CLEAN: FAIL"; fi
git apply "$S/patch.diff"
if cargo build --offline >/tmp/confirm_build.log 2>&1; then echo "BUILD: ok"; else echo "BUILD: FAIL"; fi
if cargo test --offline --test zz_seeded_demo >/tmp/confirm_demo_patched.log 2>&1; then echo "DEMO-PATCHED: pass (BAD)"; else echo "DEMO-PATCHED: fails (good)"; fi
rm -f tests/zz_seeded_demo.rs
REPO_DIR="$WT" python3 /verif/tools/baseline_off.py | tail -3
git checkout -q -- . ; git status --short | grep -v SEEDED | head -3
