#!/bin/bash
# try_seeded.sh <patch.diff> <ID> [<ID>...]  — apply a seeded change to /repo, run the quick checks of the given
# properties, undo the change. Prints "<ID> rc=<code> <summary line>" per check.
set -u
PATCH="$1"; shift
cd /verif
trap 'git -C /repo checkout -q -- . ; git -C /repo status --short | head -3' EXIT
git -C /repo apply "$PATCH" || { echo "patch does not apply"; exit 2; }
for id in "$@"; do
  out=$(./check "$id" quick 2>&1); rc=$?
  echo "$id rc=$rc $(echo "$out" | grep -E "quick seed|INFRA|worker build" | tail -1)"
  echo "$out" | grep -E "^  what:" | head -2
done
