#!/usr/bin/env python3
"""Run the repository's pinned test suite with the verification guard OFF and compare the
set of passing tests with BASELINE.json's stable_pass. Exit 0 iff every stable test passes."""
import json, os, re, subprocess, sys
base = json.load(open("/root/.vp/BASELINE.json"))
stable = set(base["stable_pass"])
p = subprocess.run(["cargo", "test", "--workspace", "--no-fail-fast", "--offline"],
                   cwd=os.environ.get("REPO_DIR", "/repo"), stdout=subprocess.PIPE, stderr=subprocess.STDOUT, text=True)
prefix = None
passed, failed = set(), set()
for line in p.stdout.splitlines():
    m = re.match(r"\s*Running (unittests )?(\S+) \(", line)
    if m:
        path = m.group(2)
        if path == "src/lib.rs":
            prefix = "mamba::"
        elif path == "src/main.rs":
            prefix = "mamba::bin/mamba::"
        else:
            prefix = "mamba::" + path.split("/")[-1].rsplit(".", 1)[0] + "::"
        continue
    if re.match(r"\s*Doc-tests", line):
        prefix = "mamba::doc::"
        continue
    m = re.match(r"test (\S+) ... (ok|FAILED|ignored)", line)
    if m and prefix:
        (passed if m.group(2) == "ok" else failed).add(prefix + m.group(1))
missing = sorted(stable - passed)
# tests of tests/main.rs share output directories and race with each other now and then: a test that did not pass in
# the parallel run is re-run alone before it counts as missing
still = []
for t in missing:
    parts = t.split("::")
    if len(parts) >= 3 and parts[1] == "main":
        name = "::".join(parts[2:])
        q = subprocess.run(["cargo", "test", "--offline", "--test", parts[1], name, "--", "--exact"], cwd=os.environ.get("REPO_DIR", "/repo"),
                           stdout=subprocess.PIPE, stderr=subprocess.STDOUT, text=True)
        if re.search(r"test %s ... ok" % re.escape(name), q.stdout):
            passed.add(t)
            continue
    still.append(t)
missing = still
print("stable_pass=%d passed_now=%d stable_missing=%d" % (len(stable), len(passed), len(missing)))
for t in missing[:50]:
    print("  NOT PASSING:", t)
sys.exit(0 if not missing else 1)
