"""C17 — interoperability: the output's Python API mirrors the Mamba definitions."""
import ast

from hypothesis import strategies as st

from pbt import apigen
from pbt.worker import outcome


def actual_params(fn):
    a = fn.args
    out = []
    pos = a.posonlyargs + a.args
    ndef = len(a.defaults)
    for i, arg in enumerate(pos):
        has = i >= len(pos) - ndef
        val = None
        if has:
            d = a.defaults[i - (len(pos) - ndef)]
            try:
                val = ast.literal_eval(d)
            except Exception:
                val = ("<expr>", ast.dump(d))
        out.append((arg.arg, has, val, False))
    if a.vararg is not None:
        out.append((a.vararg.arg, False, None, True))
    for arg, d in zip(a.kwonlyargs, a.kw_defaults):
        out.append((arg.arg, d is not None, None, "kwonly"))
    if a.kwarg is not None:
        out.append((a.kwarg.arg, False, None, "kwarg"))
    return out


def compare_api(api, py):
    """None or failure text"""
    mod = ast.parse(py)
    top_f, top_c = {}, {}
    for st_ in mod.body:
        if isinstance(st_, ast.FunctionDef):
            top_f.setdefault(st_.name, []).append(st_)
        elif isinstance(st_, ast.ClassDef):
            top_c.setdefault(st_.name, []).append(st_)
    for name, params in api["functions"].items():
        if len(top_f.get(name, [])) != 1:
            return "function %s is defined %d times in the output" % (name, len(top_f.get(name, [])))
        got = actual_params(top_f[name][0])
        if [tuple(p) for p in params] != got:
            return "parameters of %s are %s, the Mamba signature says %s" % (name, got, params)
    for cname, c in api["classes"].items():
        if len(top_c.get(cname, [])) != 1:
            return "class %s is defined %d times in the output" % (cname, len(top_c.get(cname, [])))
        node = top_c[cname][0]
        bases = [ast.unparse(b) for b in node.bases]
        want = list(c["bases"])
        if bases != want and not (c["interface"] and bases == want + ["ABC"]):
            return "bases of %s are %s, the Mamba definition says %s" % (cname, bases, want)
        methods = {}
        for st_ in node.body:
            if isinstance(st_, ast.FunctionDef):
                methods.setdefault(st_.name, []).append(st_)
        for mname, params in c["methods"].items():
            if len(methods.get(mname, [])) != 1:
                return "method %s.%s is defined %d times in the output" % (cname, mname, len(methods.get(mname, [])))
            got = actual_params(methods[mname][0])
            if [tuple(p) for p in params] != got:
                return "parameters of %s.%s are %s, the Mamba signature says %s" % (cname, mname, got, params)
        if c["init"] is not None:
            if len(methods.get("__init__", [])) != 1:
                return "class %s has class arguments but %d __init__" % (cname, len(methods.get("__init__", [])))
            got = [p[0] for p in actual_params(methods["__init__"][0])]
            if got != ["self"] + c["init"]:
                return "__init__ of %s takes %s, the class arguments are %s" % (cname, got, c["init"])
    return None


class C17:
    id = "C17"
    cases = {"quick": 1500, "thorough": 40000}
    rule = ("API-shaped programs: 1-3 functions (0-3 parameters, trailing defaults, vararg), 0-2 interfaces, body-less types that name a "
            "parent interface, 1-3 classes with "
            "and without class arguments (def-marked or plain), a parent with arguments passed through, a second parent, an "
            "implemented interface, 0-5 members (fields, methods with self / fin self, operator definitions + - * / // ^ mod = > <) "
            "in random order, definitions in random order; both annotate settings. Oracle: from the model, the expected list of "
            "(name, parameter names in order, which have defaults and the literal default, variadic marker), class bases in order "
            "(a trailing ABC allowed for interfaces), operators under their documented dunder, __init__(self, <class arguments>); "
            "compared with FunctionDef/ClassDef of the emitted ast: each exists exactly once. Non-trivial: accepted and a class "
            "with >=3 members or a function with default/vararg; distinct by SHA-1 of the source.")
    assumptions = ["operator table: + __add__, - __sub__, * __mul__, / __truediv__, // __floordiv__, ^ __pow__, mod __mod__, "
                   "= __eq__, > __gt__, < __lt__ (src/check/context/function/python.rs)"]
    strict = False

    def strategy(self, tier, switches):
        return st.tuples(apigen.programs(), st.booleans()).map(lambda t: dict(t[0], annotate=t[1]))

    def summarize(self, case):
        return {"src": case["src"][:900], "annotate": case.get("annotate")}

    def check(self, worker, case, stats):
        r = worker.transpile1(case["src"], case.get("annotate", False))
        oc = outcome(r)
        if oc != "ok":
            stats.inc("rejected" if oc == "err" else "crash_left_to_C03")
            if oc == "err":
                stats.inc("reject_reason:" + r["err"][0].split("\n")[0][:60])
            return None
        stats.inc("accepted")
        api = case["api"]
        big = any(len(c["methods"]) + (1 if c["init"] else 0) >= 3 for c in api["classes"].values())
        dflt = any(p[1] or p[3] for ps in api["functions"].values() for p in ps)
        if big or dflt:
            stats.mark_nontrivial({"src": case["src"]}, sample=self.summarize(case))
        try:
            msg = compare_api(api, r["ok"][0])
        except SyntaxError:
            stats.inc("invalid_python_left_to_C02")
            return None
        if msg:
            return {"what": msg, "python": r["ok"][0]}
        return None
