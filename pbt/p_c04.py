"""C04 — accepted programs do not go wrong: no type/attribute/name errors at run time."""
from hypothesis import strategies as st

from pbt import gen, model, pyoracle, scopegen
from pbt import p_c05, p_c06, p_c07, p_c09
from pbt.model import BOOL, FLOAT, INT, STR
from pbt.worker import outcome

EXPR_KINDS = {"lit", "none", "var", "bin", "cmp", "and", "or", "not", "neg", "ifx", "call", "new", "mcall", "field", "index",
              "in", "dflt", "fstr", "list", "set", "sqrt", "conv", "hnd", "matchx"}
GOES_WRONG = ("TypeError", "AttributeError", "NameError", "UnboundLocalError")
SWITCHES = set()
EXCLUDED = {}


def expr_paths(obj, path, out, parent=None):
    """paths (tuples of indices / keys) to every expression node of a model tree"""
    if isinstance(obj, tuple) and obj and isinstance(obj[0], str) and obj[0] in EXPR_KINDS and len(obj) >= 2:
        out.append((path, obj, parent))
        for i, x in enumerate(obj):
            if i >= 2:
                expr_paths(x, path + (i,), out, obj)
        return
    if isinstance(obj, (tuple, list)):
        if isinstance(obj, tuple) and obj and obj[0] == "range":
            parent = ("range",)   # bounds and step of a for-range
        for i, x in enumerate(obj):
            expr_paths(x, path + (i,), out, parent)
    elif isinstance(obj, dict):
        for k in ("body", "tail", "methods", "params", "fields"):
            if k in obj and obj[k] is not None:
                expr_paths(obj[k], path + (k,), out, parent)


def replace_at(obj, path, new):
    if not path:
        return new
    k = path[0]
    if isinstance(obj, dict):
        d = dict(obj)
        d[k] = replace_at(obj[k], path[1:], new)
        return d
    seq = list(obj)
    seq[k] = replace_at(seq[k], path[1:], new)
    return tuple(seq) if isinstance(obj, tuple) else seq


OTHER = {INT: [STR, BOOL, FLOAT, "none"], FLOAT: [STR, BOOL, "none"], STR: [INT, BOOL, FLOAT, "none"], BOOL: [STR, INT, "none"]}
LIT = {INT: ("lit", INT, 5), FLOAT: ("lit", FLOAT, 1.5), STR: ("lit", STR, "zq"), BOOL: ("lit", BOOL, True)}


@st.composite
def edited_programs(draw):
    prog = draw(gen.programs({"max_main": 5}))
    items = prog["items"]
    n_edits = draw(st.integers(0, 3))
    kinds = []
    for _ in range(n_edits):
        out = []
        expr_paths(items, (), out)
        # not the pattern literals, not names of definitions
        cands = [(p, e, par) for (p, e, par) in out if e[0] != "hnd"]
        if not cands:
            break
        p, e, parent = cands[draw(st.integers(0, len(cands) - 1))]
        opts = ["retype"]
        if e[0] in ("call", "new", "mcall"):
            opts += ["drop_arg", "add_arg"]
        if e[0] == "var":
            opts += ["rename"]
        k = draw(st.sampled_from(opts))
        new = None
        if k == "retype":
            ty = e[1] if isinstance(e[1], str) and e[1] in OTHER else INT
            other = draw(st.sampled_from(OTHER[ty]))
            if other == STR and "no_number_right_of_str_plus" in SWITCHES and parent is not None and parent[0] == "bin" \
                    and parent[2] in ("+",) and False:
                other = BOOL
            # open finding F10: Str + number is accepted (the stub admits it); keep numbers away from the right of a Str `+`
            if "no_number_right_of_str_plus" in SWITCHES and parent is not None and parent[0] == "bin" and parent[2] == "+" \
                    and parent[1] == STR and other != STR:
                EXCLUDED["no_number_right_of_str_plus"] = EXCLUDED.get("no_number_right_of_str_plus", 0) + 1
                continue
            if "no_number_right_of_str_plus" in SWITCHES and parent is not None and parent[0] == "bin" and parent[2] == "+" \
                    and other == STR:
                EXCLUDED["no_number_right_of_str_plus"] = EXCLUDED.get("no_number_right_of_str_plus", 0) + 1
                continue
            # F10 again, one level down: a number in a branch of a Str-typed if-expression reaches the right of a Str `+` through it
            if "no_number_right_of_str_plus" in SWITCHES and parent is not None and parent[0] == "ifx" and parent[1] == STR \
                    and other != STR:
                EXCLUDED["no_number_right_of_str_plus"] = EXCLUDED.get("no_number_right_of_str_plus", 0) + 1
                continue
            # open finding F49: a Float / None bound of a range is accepted
            if "no_float_or_nullable_range_bound" in SWITCHES and parent is not None and parent[0] == "range" \
                    and other in (FLOAT, "none"):
                EXCLUDED["no_float_or_nullable_range_bound"] = EXCLUDED.get("no_float_or_nullable_range_bound", 0) + 1
                continue
            # open finding F44 (an if-expression is accepted when one branch conforms): no retyping inside its branches
            if "no_retyped_ifexpr_branch" in SWITCHES and parent is not None and parent[0] == "ifx":
                EXCLUDED["no_retyped_ifexpr_branch"] = EXCLUDED.get("no_retyped_ifexpr_branch", 0) + 1
                continue
            if "no_retyped_unary_operand" in SWITCHES and parent is not None and parent[0] in ("neg",):
                EXCLUDED["no_retyped_unary_operand"] = EXCLUDED.get("no_retyped_unary_operand", 0) + 1
                continue
            new = ("none", ("Opt", ty)) if other == "none" else LIT[other]
        elif k == "drop_arg":
            idx = 4 if e[0] == "mcall" else 3
            if not e[idx]:
                continue
            new = e[:idx] + (list(e[idx][:-1]),) + e[idx + 1:]
        elif k == "add_arg":
            idx = 4 if e[0] == "mcall" else 3
            new = e[:idx] + (list(e[idx]) + [LIT[draw(st.sampled_from([INT, STR]))]],) + e[idx + 1:]
        else:
            new = ("var", e[1], "undefined_zq")
        items = replace_at(items, p, new)
        kinds.append(k)
    try:
        src = model.render_program({"items": items})
    except Exception:
        src = model.render_program(prog)
        kinds = []
    return {"gen": "core", "src": src, "edits": kinds, "annotate": draw(st.booleans())}


def _targeted():
    def wrap(name, strat):
        return strat.map(lambda c: {"gen": name, "src": c["src"], "edits": [c.get("mutation") or c.get("kind") or ""],
                                    "annotate": False, "expected_verdict": c.get("expect")})
    def no_global_assign(c):
        # open finding F46: assignments to a top-level variable inside a function lack `global`
        if "no_global_assign_in_function" not in SWITCHES:
            return True
        inside = c.get("position") in ("fun", "method", "nested_if_in_fun", "for_in_method")
        hit = inside and c.get("kind") in ("var", "var_annotated", "tuple")
        if hit:
            EXCLUDED["no_global_assign_in_function"] = EXCLUDED.get("no_global_assign_in_function", 0) + 1
        return not hit
    def no_global_assign6(c):
        if "no_global_assign_in_function" not in SWITCHES:
            return True
        hit = c.get("position") in ("fun", "method", "nested_if_in_fun", "for_in_method") and c.get("consumer") == "assign"
        if hit:
            EXCLUDED["no_global_assign_in_function"] = EXCLUDED.get("no_global_assign_in_function", 0) + 1
        return not hit
    return st.one_of(wrap("c05", p_c05._case()), wrap("c06", p_c06._case().filter(no_global_assign6)),
                     wrap("c07", p_c07._case().filter(no_global_assign)),
                     wrap("c09", p_c09._case()),
                     # constructors over fields that must be assigned on every path (loops that may run zero times); no shadowing
                     # in these programs, so the open finding F16 cannot be met
                     scopegen.ctor_case().map(lambda c: {"gen": "ctor", "src": c["src"], "annotate": False,
                                                         "edits": [(c["fault"] or {}).get("kind", "conforming")],
                                                         "expected_verdict": c["expect"]}))


MATRIX_WORLD = """class A(def a: Int)
    def ma(fin self, k: Int) -> Int => k + self.a
def fi(p: Int) -> Int => p
def vi: Int := 3
def vf: Float := 2.5
def vs: Str := "s"
def vb: Bool := True
def vl: List[Int] := [1, 2]
def va: A := A(1)
def ni: Int? := None
def na: A? := None
def vt: (Int, Int) := (1, 2)
def vtm: (Int, Str) := (1, "a")
def vlt: List[(Int, Int)] := [(1, 2)]
def vltm: List[(Int, Str)] := [(1, "x")]
def vd: Dict[Str, Int] := {"k" => 1}
class T(def t: Int)
    def mt(fin self, k: (Int, Int)) -> Int =>
        def (p, q) := k
        p - q
    def ml(fin self, k: List[(Int, Int)]) -> Int =>
        for (p, q) in k do print(p - q)
        1
def ft(k: (Int, Int)) -> Int =>
    def (p, q) := k
    p - q
def flt(k: List[(Int, Int)]) -> Int =>
    for (p, q) in k do print(p - q)
    1
def vtt: T := T(1)
def pr() => print(0)
class Acc(def bal: Int)
    def dep(self, k: Int) => self.bal := self.bal + k
def vacc: Acc := Acc(1)
"""
MATRIX_VALUES = {"Int": ["3", "vi"], "Float": ["2.5", "vf"], "Str": ['"s"', "vs"], "Bool": ["True", "vb"], "List": ["[1, 2]", "vl"],
                 "A": ["A(1)", "va"], "OptInt": ["ni"], "OptA": ["na"], "None": ["None"], "Fun": ["fi"],
                 "Tuple": ["(1, 2)", "vt"], "TupleMixed": ['(1, "a")', "vtm"], "ListTuple": ["[(1, 2)]", "vlt"],
                 "ListTupleMixed": ['[(1, "x")]', "vltm"], "Dict": ['{"k" => 1}', "vd"],
                 # calls that have no value (a function / method without return type)
                 "Unit": ["pr()", "vacc.dep(5)"]}
BINARY = ["+", "-", "*", "/", "//", "mod", "^", "<", "<=", ">", ">=", "=", "!=", "and", "or", "in", "_and_", "_or_", "_xor_", "<<",
          ">>", "is", "?"]
UNARY = ["-", "not ", "_not_ ", "sqrt "]
AUG = ["+=", "-=", "*=", "/=", "^=", "<<=", ">>="]
AUG_TARGETS = {"Int": (["def k: Int := 4"], "k", "print(vl[%(t)s - %(t)s])"),
               "IntInferred": (["def k := 4"], "k", "print(vl[%(t)s - %(t)s])"),
               "IntRange": (["def k: Int := 4"], "k", "for i in 0 .. %(t)s do print(1)"),
               "Float": (["def k: Float := 4.5"], "k", "print(%(t)s + 0.5)"),
               "Str": (["def k: Str := \"s\""], "k", "print(%(t)s + \"t\")"),
               "Field": ([], "va.a", "print(vl[%(t)s - %(t)s])"),
               "SelfField": (["class Cn(def n: Int)", "    def halve(self, o: Int) -> Int =>"], "        self.n", "        return vl[self.n - self.n]\nprint(Cn(4).halve(2))")}


def operator_matrix():
    """Exhaustive operator x operand-type matrix: every binary operator with every ordered pair of operand types, every unary
    operator, index, call, attribute, method, interpolation, iteration, range bounds, conversions, conditions."""
    types = sorted(MATRIX_VALUES)
    out = []

    def add(name, stmts):
        out.append({"gen": "matrix", "name": name, "src": MATRIX_WORLD + "\n".join(stmts) + "\n", "edits": [name.split(":")[0]],
                    "annotate": False})
    for op in BINARY:
        for a in types:
            for b in types:
                for va_ in MATRIX_VALUES[a][-1:]:
                    for vb_ in MATRIX_VALUES[b][-1:]:
                        add("binary:%s:%s:%s" % (op, a, b), ["def r := %s %s %s" % (va_, op, vb_), "print(1)"])
        for a in types:
            for b in types:
                add("binary_lit:%s:%s:%s" % (op, a, b), ["def r := %s %s %s" % (MATRIX_VALUES[a][0], op, MATRIX_VALUES[b][0]), "print(1)"])
    for op in UNARY:
        for a in types:
            for v in MATRIX_VALUES[a]:
                add("unary:%s:%s" % (op.strip(), a), ["def r := %s%s" % (op, v), "print(1)"])
                add("unary_annotated:%s:%s" % (op.strip(), a), ["def r: Int := %s%s" % (op, v), "print(1)"])
    for a in types:
        v = MATRIX_VALUES[a][-1]
        for b in types:
            w = MATRIX_VALUES[b][-1]
            add("index:%s:%s" % (a, b), ["def r := %s[%s]" % (v, w), "print(1)"])
            add("call:%s:%s" % (a, b), ["def r := %s(%s)" % (v, w), "print(1)"])
            add("range:%s:%s" % (a, b), ["for i in %s .. %s do print(1)" % (v, w)])
            add("method_arg:%s:%s" % (a, b), ["def r := %s.ma(%s)" % (v, w), "print(1)"])
            add("fun_arg:%s" % b, ["def r := fi(%s)" % w, "print(1)"])
        for w in MATRIX_VALUES[a]:
            add("tuple_fun_arg:%s" % a, ["print(ft(%s))" % w])
            add("tuple_list_fun_arg:%s" % a, ["print(flt(%s))" % w])
            add("tuple_method_arg:%s" % a, ["print(vtt.mt(%s))" % w])
            add("tuple_list_method_arg:%s" % a, ["print(vtt.ml(%s))" % w])
            add("destructure:%s" % a, ["def (p, q) := %s" % w, "print(p - q)"])
            add("destructure_annotated:%s" % a, ["def (p, q): (Int, Int) := %s" % w, "print(p - q)"])
            add("for_destructure:%s" % a, ["for (p, q) in %s do print(p - q)" % w])
            add("list_of:%s" % a, ["def r: List[Int] := [%s]" % w, "print(r[0] + 1)"])
            add("list_tuple_init:%s" % a, ["def r: List[(Int, Int)] := %s" % w, "for (p, q) in r do print(p - q)"])
        add("attribute:%s" % a, ["def r := %s.a" % v, "print(1)"])
        for w in MATRIX_VALUES[a]:
            add("attribute_as_argument:%s" % a, ["fi(%s.a)" % w])
            add("attribute_as_initialiser:%s" % a, ["def r: Int := %s.bal" % w, "print(1)"])
            add("attribute_returned:%s" % a, ["def fr() -> Int =>", "    return %s.bal" % w, "print(fr())"])
            add("step:%s" % a, ["for i in 0 .. 4 .. %s do print(i)" % w])
            add("step_inclusive:%s" % a, ["for i in 0 ..= 4 .. %s do print(i)" % w])
            add("slice_step:%s" % a, ["def r := vl[0 :: 2 :: %s]" % w, "print(1)"])
            add("step_expression:%s" % a, ["for i in 0 .. 4 .. (1 + %s) do print(i)" % w])
        add("attribute_unknown:%s" % a, ["def r := %s.nope" % v, "print(1)"])
        add("method_unknown:%s" % a, ["def r := %s.nope(1)" % v, "print(1)"])
        add("interpolation:%s" % a, ['def r := "x{%s}y"' % v, "print(r)"])
        add("print:%s" % a, ["print(%s)" % v])
        add("iterate:%s" % a, ["for e in %s do print(1)" % v])
        add("condition:%s" % a, ["if %s then print(1)" % v])
        add("while_condition:%s" % a, ["def k := 1", "while %s and k > 0 do k := k - 1" % v])
        add("match_subject:%s" % a, ["match %s" % v, "    1 => print(1)", "    _ => print(2)"])
        for conv in ("Int", "Float", "Str", "Bool"):
            add("conversion:%s:%s" % (conv, a), ["def r := %s(%s)" % (conv, v), "print(1)"])
        add("raise_arg:%s" % a, ["class E(msg: Str): Exception(msg)", "def f() raise [E] => raise E(%s)" % v, "f() handle",
                                "    err: E => print(1)"])
        add("aug_assign:%s" % a, ["def k := 1", "k += %s" % v, "print(k)"])
        # compound assignments: the result of the operator must fit the target, which is used as its declared type afterwards
        for op in AUG:
            for tgt, (init, name, use) in sorted(AUG_TARGETS.items()):
                add("aug:%s:%s:%s" % (op, tgt, a), init + ["%s %s %s" % (name, op, v), use % {"t": name}])
        add("field_assign:%s" % a, ["va.a := %s" % v, "print(va.a + 1)"])
        add("return:%s" % a, ["def f() -> Int => %s" % v, "print(f() + 1)"])
    return out


def _matrix_excluded(name):
    """matrix cells of open findings (by construction: the cell name)"""
    for sw, pred in MATRIX_EXCLUSIONS.items():
        if sw in SWITCHES and pred(name):
            EXCLUDED[sw] = EXCLUDED.get(sw, 0) + 1
            return True
    return False


def _cell(name):
    parts = name.split(":")
    return parts[0], parts[1:]


def _f10(name):
    k, a = _cell(name)
    if k == "aug":
        return a[0] == "+=" and a[1] == "Str" and a[2] in ("Int", "Float", "Bool")
    return k in ("binary", "binary_lit") and a[0] == "+" and a[1] == "Str" and a[2] in ("Int", "Float", "Bool")


def _f47(name):
    k, a = _cell(name)
    loose = ("Float", "OptInt", "Int")
    if k in ("binary", "binary_lit") and a[0] in ("_and_", "_or_", "_xor_", "<<", ">>"):
        return a[1] in loose and a[2] in loose and not (a[1] == "Int" and a[2] == "Int")
    if k == "aug" and a[0] in ("<<=", ">>="):
        left = "Float" if a[1] == "Float" else "Str" if a[1] == "Str" else "Int"
        return left in loose and a[2] in loose and not (left == "Int" and a[2] == "Int")
    if k in ("unary", "unary_annotated") and a[0] == "_not_":
        return a[1] in ("Float", "OptInt")
    return False


def _f48(name):
    k, a = _cell(name)
    return k in ("attribute", "attribute_as_argument", "attribute_as_initialiser", "attribute_returned") and a[0] == "OptA"


def _f49(name):
    k, a = _cell(name)
    if k in ("step", "step_inclusive", "slice_step", "step_expression"):
        return a[0] in ("Float", "OptInt")
    return k == "range" and (a[0] in ("Float", "OptInt") or a[1] in ("Float", "OptInt")) and \
        a[0] in ("Float", "OptInt", "Int") and a[1] in ("Float", "OptInt", "Int")


def _f60(name):
    k, a = _cell(name)
    return k == "list_of" and a[0] == "OptInt"


# cells of the operator matrix that open findings occupy (exclusion by construction: the cell itself)
MATRIX_EXCLUSIONS = {"no_number_right_of_str_plus": _f10, "no_float_or_nullable_bitwise": _f47,
                     "no_nullable_receiver_field": _f48, "no_float_or_nullable_range_bound": _f49,
                     "no_nullable_element_in_list": _f60}


class C04:
    id = "C04"
    cases = {"quick": 250, "thorough": 10000}
    rule = ("(core) CoreGen programs (exception-free bases) with 0-3 type-changing edits on the model tree: an expression replaced by "
            "a literal of another type or by None, the last argument of a call / constructor / method call dropped, an argument added, "
            "a variable use renamed to an undefined name; (c05/c06/c07/c09) the conforming AND the mutated cases of the targeted "
            "generators of those properties; (ctor) generated constructors over fields that must be assigned on every path (loops that may "
            "run zero times); (matrix, fixed) the exhaustive operator x operand-type matrix incl. compound assignments x targets. Whatever the checker accepts is executed in-process (settrace budget). Oracle: the "
            "uncaught exception class is not TypeError, AttributeError, NameError or UnboundLocalError; rejection is always fine. "
            "Non-trivial: an edited or targeted program that was either rejected or accepted and executed; distinct by SHA-1 of the "
            "source; edit kind x verdict histogram reported.")
    assumptions = ["only the four exception classes of the statement count; other exceptions (ZeroDivisionError, user exceptions) are fine",
                   "programs run with a line budget of 20000 traced lines; exceeding it is not judged"]
    strict = False

    def strategy(self, tier, switches):
        names = set(s.split(".", 1)[1] for s in switches if "." in s)
        SWITCHES.update(names)
        for m in (p_c05.sites, p_c06, p_c07, p_c09):
            m.SWITCHES.update(names)
        return st.one_of(edited_programs(), edited_programs(), _targeted())

    def fixed_cases(self, tier, switches):
        names = set(s.split(".", 1)[1] for s in switches if "." in s)
        SWITCHES.update(names)
        for c in operator_matrix():
            if not _matrix_excluded(c["name"]):
                yield c

    def summarize(self, case):
        return {"gen": case["gen"], "edits": case["edits"], "annotate": case["annotate"], "src": case["src"][-700:]}

    def check(self, worker, case, stats):
        r = worker.transpile1(case["src"], case["annotate"])
        oc = outcome(r)
        for k, v in list(EXCLUDED.items()):
            stats.inc("excluded_known:" + k, v)
        EXCLUDED.clear()
        for m in (p_c05.sites, p_c06, p_c07, p_c09):
            m.EXCLUDED.clear()
        stats.inc("gen:" + case["gen"])
        if oc not in ("ok", "err"):
            stats.inc("crash_left_to_C03")
            return None
        for k in case["edits"] or ["none"]:
            stats.inc("edit:%s/%s" % (k, "accepted" if oc == "ok" else "rejected"))
        if case["edits"] or case["gen"] != "core":
            stats.mark_nontrivial({"src": case["src"], "a": case["annotate"]}, sample=self.summarize(case),
                                  key=(case["gen"], tuple(case["edits"])[:1]))
        if oc == "err":
            return None
        got = pyoracle.run_module(r["ok"][0], 20000)
        if got["compile_error"]:
            stats.inc("invalid_python_left_to_C02")
            return None
        stats.inc("executed")
        if got["exc"]:
            stats.inc("raised:" + got["exc"])
        if got["exc"] in GOES_WRONG:
            return {"what": "accepted program raises %s when run: %s" % (got["exc"], got.get("excmsg")),
                    "python": r["ok"][0], "edits": case["edits"]}
        return None
