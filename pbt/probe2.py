"""Dev aid: python3-vt -m pbt.probe2 FILE — programs separated by lines '===='; each transpiled (both flags) and run."""
import sys, io, contextlib
from pbt.worker import Worker
def run(py):
    buf = io.StringIO(); exc = ""
    try:
        with contextlib.redirect_stdout(buf):
            exec(compile(py, "<o>", "exec"), {"__name__": "__main__"})
    except BaseException as e:
        exc = " EXC=%s:%s" % (type(e).__name__, e)
    return buf.getvalue().replace("\n", "|") + exc
def main():
    progs = open(sys.argv[1]).read().split("\n====\n")
    w = Worker()
    for i, src in enumerate(progs):
        if not src.strip(): continue
        res = []
        for ann in (False, True):
            r = w.transpile1(src + "\n", ann)
            if "ok" in r: res.append(("OK", run(r["ok"][0]), r["ok"][0]))
            elif "err" in r: res.append(("ERR", r["err"][0].split("\n")[0], "\n".join(r["err"])))
            else: res.append(("CRASH", str(r)[:200], ""))
        head = src.strip().split("\n")
        print("#%d %s" % (i, " / ".join(head)[:150]))
        if res[0][:2] == res[1][:2]:
            print("    both: %s %s" % res[0][:2])
        else:
            print("    F: %s %s\n    T: %s %s" % (res[0][:2] + res[1][:2]))
        if "-v" in sys.argv: print(res[0][2]); print(res[1][2])
    w.close()
main()
