"""libFuzzer stage of the thorough tier (C03: target `pipeline`, C18: target `lex`).

Runs tools/fuzz_campaign.sh, turns every crash artefact into a replay case, re-judges it with the property's own
Python oracle through the isolated worker (both builds must agree before anything is reported), appends what the
campaign covered to the evidence file, prints VIOLATION lines. Exit 0 / 1 / 2 like the checks."""
import json
import os
import re
import subprocess
import sys

from pbt import engine
from pbt.run import REGISTRY
from pbt.worker import Worker

TARGET = {"C03": "pipeline", "C18": "lex"}


def main(pid, seed, seconds):
    root = engine.VERIF
    target = TARGET[pid]
    p = subprocess.run([os.path.join(root, "tools", "fuzz_campaign.sh"), target, str(seconds), str(seed)],
                       stdout=subprocess.PIPE, stderr=subprocess.STDOUT, text=True)
    arts = re.findall(r"^ARTIFACT (.*)$", p.stdout, re.M)
    log = os.path.join(root, "fuzz", "last_%s.log" % target)
    execs, cov = 0, 0
    built = False
    if os.path.exists(log):
        txt = open(log, errors="replace").read()
        built = "Running `" in txt
        m = re.findall(r"^#(\d+): cov: (\d+)", txt, re.M)
        if m:
            execs, cov = int(m[-1][0]), int(m[-1][1])
    if not built:
        print("libFuzzer stage could not be built or started (infrastructure, not a violation); see %s" % log)
        return 2
    mod, cls = REGISTRY[pid]
    prop = getattr(__import__(mod, fromlist=[cls]), cls)()
    prop.strict = True
    worker = Worker(cpu_limit=getattr(prop, "cpu_limit", 120.0))
    violations, disagree = [], 0
    try:
        for a in arts:
            data = open(a, "rb").read()
            try:
                text = data.decode("utf-8")
            except UnicodeDecodeError:
                continue
            if pid == "C03":
                case = {"gen": "libfuzzer", "files": [[text, None]], "annotate": len(data) % 2 == 0}
            else:
                case = {"gen": "libfuzzer", "src": text}
            f = prop.check(worker, case, engine.NullStats())
            if f and not f.get("inconclusive"):
                violations.append(engine.write_replay(pid, case, f, "fuzz-"))
            else:
                disagree += 1
    finally:
        worker.close()
    ev_path = os.path.join(root, "evidence", pid + ".json")
    if os.path.exists(ev_path):
        ev = json.load(open(ev_path))
        ev["coverage"]["libfuzzer"] = {"target": target, "seconds": seconds, "executions": execs, "edge_coverage": cov,
                                       "crash_artifacts": len(arts), "confirmed_by_python_oracle": len(violations),
                                       "not_confirmed": disagree}
        ev["coverage"]["evaluations"] += execs
        ev["violations"] = ev.get("violations", 0) + len(violations)
        json.dump(ev, open(ev_path, "w"), indent=1)
    print("%s libFuzzer %s: executions=%d edges=%d artifacts=%d confirmed=%d not_confirmed=%d"
          % (pid, target, execs, cov, len(arts), len(violations), disagree))
    for v in violations:
        print("VIOLATION property=%s replay=%s" % (pid, v))
    if violations:
        return 1
    if disagree:
        print("INCONCLUSIVE: %d libFuzzer artefacts are not confirmed by the isolated worker (kept under fuzz/artifacts)" % disagree)
        return 2
    return 0


if __name__ == "__main__":
    sys.exit(main(sys.argv[1], int(sys.argv[2]), int(sys.argv[3])))
