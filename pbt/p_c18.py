"""C18 — token positions are exact and indentation tokens are balanced (via the guarded lexer hook)."""
import itertools

from hypothesis import strategies as st

from pbt import corpus, mutate
from pbt.worker import outcome

SYNTH = {"NL", "Indent", "Dedent", "Eof"}


def source_spelling(tok):
    k = tok["k"]
    if k == "Str":
        return '"' + tok["p"][0] + '"'
    if k == "DocStr":
        return '"""' + tok["p"][0] + '"""'
    if k == "Comment":
        return "#" + tok["p"][0]
    return tok["l"]


def span_text(lines, s, e):
    """Text of [s, e) with 1-indexed (line, col); lines are split on '\\n' (a '\\r' stays on its line)."""
    (l0, c0), (l1, c1) = s, e
    if l0 < 1 or l1 < l0 or l1 > len(lines) or c0 < 1 or c1 < 1:
        return None
    if l0 == l1:
        if c1 < c0 or c1 - 1 > len(lines[l0 - 1]):
            return None
        return lines[l0 - 1][c0 - 1:c1 - 1]
    if c1 - 1 > len(lines[l1 - 1]):
        return None
    parts = [lines[l0 - 1][c0 - 1:]] + lines[l0:l1 - 1] + [lines[l1 - 1][:c1 - 1]]
    return "\n".join(parts)


def canonical(tokens):
    """Canonical spelling of a token sequence: one space between tokens, layout rebuilt from
    NL/Indent/Dedent. The NL that the lexer synthesises directly after a group of dedents is dropped."""
    out = []
    depth = 0
    at_line_start = True
    after_dedent = False
    for t in tokens:
        k = t["k"]
        if k == "Indent":
            depth += 1
            after_dedent = False
        elif k == "Dedent":
            depth -= 1
            after_dedent = True
        elif k == "NL":
            if after_dedent:
                after_dedent = False
                continue
            out.append("\n")
            at_line_start = True
        elif k == "Eof":
            after_dedent = False
        else:
            after_dedent = False
            if at_line_start:
                out.append(" " * (4 * max(depth, 0)))
                at_line_start = False
            else:
                out.append(" ")
            out.append(source_spelling(t))
    return "".join(out)


def judge_tokens(src, tokens, ascii_only, wellformed_indent):
    """Returns failure text or None. Pure function of source text and token list."""
    lines = src.split("\n")
    kinds = [t["k"] for t in tokens]
    # (d) exactly one Eof, last
    if kinds.count("Eof") != 1 or kinds[-1] != "Eof":
        return "stream does not end with a single Eof: %s" % kinds[-4:]
    # (c) indentation tokens balance: never more dedents than indents, none left open at the end
    run = 0
    for k in kinds:
        run += (k == "Indent") - (k == "Dedent")
        if run < 0:
            return "Dedent without a preceding Indent"
    if run != 0:
        return "an Indent has no matching Dedent before end of input (%+d)" % run
    if not ascii_only:
        return None
    # (a) span text equals spelling; (b) order / disjointness
    prev_end = (1, 1)
    real = [t for t in tokens if t["k"] not in SYNTH]
    for t in real:
        s, e = tuple(t["s"]), tuple(t["e"])
        want = source_spelling(t)
        got = span_text(lines, s, e)
        if got != want:
            return "token %s %r recorded at %s-%s but the source has %r there" % (t["k"], want, s, e, got)
        if s < prev_end:
            return "token %s at %s starts before the previous token ended (%s)" % (t["k"], s, prev_end)
        prev_end = e
        # (e) interpolated tokens point at their own text
        for group in t.get("inner", []):
            for it in group:
                if it["k"] in SYNTH:
                    continue
                g = span_text(lines, tuple(it["s"]), tuple(it["e"]))
                if g != source_spelling(it):
                    return ("interpolated token %s %r recorded at %s-%s but the source has %r there"
                            % (it["k"], source_spelling(it), it["s"], it["e"], g))
                if not (s <= tuple(it["s"]) and tuple(it["e"]) <= e):
                    return "interpolated token %s lies outside its string %s-%s" % (it["k"], s, e)
    # synthetic tokens lie between their real neighbours
    prev_end = (1, 1)
    idx_real = [i for i, t in enumerate(tokens) if t["k"] not in SYNTH]
    nxt = {}
    j = len(tokens)
    nstart = None
    for i in range(len(tokens) - 1, -1, -1):
        if tokens[i]["k"] not in SYNTH:
            nstart = tuple(tokens[i]["s"])
        nxt[i] = nstart
    for i, t in enumerate(tokens):
        if t["k"] in SYNTH:
            s = tuple(t["s"])
            if t["k"] != "Eof" and nxt[i] is not None and s > nxt[i]:
                return "%s token at %s lies after the next token (%s)" % (t["k"], s, nxt[i])
            if s < prev_end:
                return "%s token at %s lies before the end of the previous token (%s)" % (t["k"], s, prev_end)
        else:
            prev_end = tuple(t["e"])
    return None


def wellformed_layout(src):
    """Every line that carries a token is indented by a multiple of 4 spaces, rising by at most... any
    multiple; lines inside multi-line strings are not judged (approximation: no multi-line strings)."""
    if '"' in src and "\n" in src:
        # a string may span lines; decide conservatively from the quote parity per line
        for line in src.split("\n"):
            if line.count('"') % 2 == 1:
                return False
    for line in src.split("\n"):
        body = line.rstrip("\r")
        stripped = body.lstrip(" ")
        if not stripped:
            continue
        if (len(body) - len(stripped)) % 4 != 0:
            return False
    return True


# ---- vocabulary for the exhaustive pair enumeration --------------------------------------------
PAIR_VOCAB = [
    "from", "type", "class", "pure", "isa", "as", "import", "forward", ".", ",", ":", "vararg", "\\",
    "x", "fin", ":=", "+=", "-=", "*=", "/=", "^=", "<<=", ">>=", "def", "2.5", "1", "1E2", '"s"',
    '""', '"a{x}b"', '"""d"""', "..", "..=", "::", "::=", "+", "-", "*", "/", "//", "^", "mod", "sqrt",
    "_and_", "_or_", "_xor_", "_not_", "<<", ">>", ">", ">=", "<", "<=", "=", "is", "!=", "and", "or",
    "not", "(", ")", "[", "]", "{", "}", "|", "->", "=>", "_", "raise", "when", "while", "for", "in",
    "if", "then", "match", "else", "do", "continue", "break", "return", "with", "?", "handle", "pass",
    "# c", "\n", "\n    ", "Int", "self", "None", "True", "x1", "_y", "1.", "1E", "007",
]


def pair_cases():
    for a, b in itertools.product(PAIR_VOCAB, repeat=2):
        for sep in ("", " "):
            for indent in ("", "    "):
                yield {"gen": "pair", "src": indent + a + sep + b}


@st.composite
def _case(draw, texts):
    gen = draw(st.sampled_from(["seed", "mut", "mut", "rand", "layout"]))
    if gen == "seed":
        return {"gen": "seed", "src": texts[draw(st.integers(0, len(texts) - 1))]}
    if gen == "mut":
        m = draw(mutate.mutated(texts, max_len=4096, max_lines=400))
        return {"gen": "mut", "src": m["text"]}
    if gen == "rand":
        return {"gen": "rand", "src": draw(mutate.random_text())}
    # layout: random lines with random indentation, strings (empty, multi-line, interpolated), comments
    n = draw(st.integers(1, 12))
    lines = []
    # string literals composed of segments: text, line breaks, interpolated expressions (also with line breaks INSIDE the braces,
    # several per literal, with nested quotes), escaped brackets and quotes, empty brackets
    SEG = ["a", "b c", " ", "\n", "\n  ", "\n\n", "{x}", "{ x + 1 }", "{x\n}", "{\nx}", "{x +\n 1}", "{f(\n1)}", "{y}", '{"q"}', "\\{", '\\"',
           "{}", "{x}{y}", "é", "\t"]
    composed = ['"' + "".join(draw(st.lists(st.sampled_from(SEG), min_size=0, max_size=5))) + '"' for _ in range(draw(st.integers(0, 3)))]
    for _ in range(n):
        ind = draw(st.sampled_from([0, 0, 4, 4, 8, 12, 2, 6]))
        pieces = draw(st.lists(st.sampled_from(composed + 
            ["x", "def", ":=", "1", '""', '"s"', '"a{x}b"', '"a{ x + 1 }{y}"', '"l1\nl2"', '"\n"', '"x\n  {y}"',
             '"""doc"""', '"""d1\nd2"""', '"""\n"""', "# c", "+", "(", ")", "if", "then", "else", "=>", "f(x)",
             '"{"q"}"', '"\\""', "..", "1.5", "2E3", "a.b", "[", "]", "?", ""]), min_size=0, max_size=5))
        lines.append(" " * ind + " ".join(pieces))
    eol = draw(st.sampled_from(["\n", "\n", "\r\n"]))
    src = eol.join(lines) + draw(st.sampled_from(["", eol, eol + eol]))
    return {"gen": "layout", "src": src}


class C18:
    id = "C18"
    cases = {"quick": 8000, "thorough": 150000}
    rule = ("inputs through the guarded hook mamba::verif_hooks::lex: (pair, exhaustive) all ordered pairs of a "
            "99-item vocabulary (every keyword and operator, one of each literal kind, comment, newline) joined with "
            "and without a space at indent 0 and 4; (seed) repository samples and /verif/pbt/seeds; (mut) token-level "
            "mutations of them; (rand) random vocabulary sequences; (layout) random lines with random indentation, "
            "empty/multi-line/interpolated strings, doc-strings, comments, LF/CRLF. Non-trivial: the lexer accepts the "
            "input and it has >=2 lines or a string/doc-string token; distinct by SHA-1 of the text. Oracle on accepted "
            "inputs: span text == token spelling, spans ordered/disjoint, synthetic tokens between their neighbours, "
            "Indent/Dedent balanced (running balance never negative, zero at the end), single "
            "final Eof, interpolated tokens point at their own text, canonical re-spelling lexes to the same kinds.")
    assumptions = [
        "columns are judged on ASCII inputs only (the lexer counts bytes; whether columns are bytes or characters is undocumented)",
        "the nominal width of synthetic tokens (NL/Indent/Dedent/Eof) is not judged, only where they start",
        "NL tokens are not required to be ordered among themselves (the lexer batches them by design)",
    ]
    strict = False

    def __init__(self):
        self._texts = None

    def texts(self):
        if self._texts is None:
            self._texts = [t for _, t in corpus.all_seeds()]
        return self._texts

    def strategy(self, tier, switches):
        return _case(self.texts())

    def fixed_cases(self, tier, switches):
        return pair_cases()

    def coverage_extra(self, classes):
        return {"exhaustive_subspace": "all %d x %d x 2 x 2 token pairs" % (len(PAIR_VOCAB), len(PAIR_VOCAB))}

    def summarize(self, case):
        return {"gen": case["gen"], "src": case["src"][:300]}

    def check(self, worker, case, stats):
        src = case["src"]
        r = worker.lex(src)
        stats.inc("gen:" + case["gen"])
        if "lexerr" in r:
            stats.inc("rejected")
            le = r["lexerr"]
            return None
        if "tokens" not in r:
            oc = outcome(r)
            if oc in ("panic", "abort"):
                # crashes of the lexer belong to C03; here they only make the case unjudgeable
                stats.inc("lexer_crash_left_to_C03")
                return None
            return {"inconclusive": True, "why": "no tokens", "reply": r}
        toks = r["tokens"]
        stats.inc("accepted")
        ascii_only = all(ord(c) < 128 for c in src)
        wf = wellformed_layout(src)
        if wf:
            stats.inc("wellformed_layout")
        kinds = [t["k"] for t in toks]
        if src.count("\n") >= 1 or "Str" in kinds or "DocStr" in kinds:
            stats.mark_nontrivial(case, key=case["gen"])
        for k in ("Str", "DocStr", "Indent", "Comment"):
            if k in kinds:
                stats.inc("has:" + k)
        if any(t.get("inner") for t in toks):
            stats.inc("has:interpolation")
        if any(t["k"] in ("Str", "DocStr") and "\n" in t["p"][0] for t in toks):
            stats.inc("has:multiline_string")
        msg = judge_tokens(src, toks, ascii_only, wf)
        if msg:
            return {"what": msg, "tokens": [[t["k"], t["s"], t["e"]] for t in toks][:60]}
        # (f) canonical round trip
        canon = canonical(toks)
        r2 = worker.lex(canon)
        if "tokens" not in r2:
            return {"what": "canonical spelling of an accepted token sequence is rejected: %r" % (r2.get("lexerr"),),
                    "canonical": canon}
        k2 = [t["k"] for t in r2["tokens"]]
        if k2 != kinds:
            return {"what": "canonical spelling lexes to different token kinds", "canonical": canon,
                    "kinds": kinds[:80], "kinds_canonical": k2[:80]}
        return None
