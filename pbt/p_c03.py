"""C03 — totality: any input yields output or diagnostics, never a crash or hang."""
import re

from hypothesis import strategies as st

from pbt import corpus, mutate
from pbt.engine import INCONCLUSIVE, load_known_findings
from pbt.worker import Worker, outcome

MAX_LEN = 1024
MAX_LINES = 200
CPU_LIMIT = 120.0


def _known_signatures(prop_id):
    sigs = []
    for f in load_known_findings():
        if f.get("property") == prop_id and f.get("status") == "open" and f.get("signature"):
            sigs.append((f["id"], f["signature"]))
    return sigs


def panic_matches(reply, sig):
    if "panic" not in reply or "panic" not in sig:
        return False
    if not re.search(sig["panic"], reply.get("panic", "")):
        return False
    at = reply.get("at", "")
    return at.rsplit(":", 1)[0].endswith(sig.get("file", ""))


def adversarial_catalogue():
    """Structurally generated adversarial shapes (deterministic list)."""
    c = []

    def add(name, *files):
        c.append({"gen": "adv", "name": name,
                  "files": [[t, None if len(files) == 1 else "f%d.mamba" % i]
                            for i, t in enumerate(files)]})

    # inheritance shapes
    add("self_inherit", "class A: A\n")
    add("mutual_inherit", "class A: B\nclass B: A\n")
    add("cycle3", "class A: B\nclass B: C\nclass C: A\n")
    add("diamond", "class A\n    def x: Int := 1\nclass B: A\nclass C: A\nclass D: B, C\ndef d := D()\nprint(d.x)\n")
    add("self_inherit_use", "class A: A\ndef a := A()\n")
    add("cycle_two_files", "class A: B\n", "class B: A\n")
    add("builtin_named_class", "class Int\n    def x: Int := 1\ndef a := 1 + 2\n")
    add("builtin_named_class2", "class Str: Int\ndef a := \"s\" + \"t\"\n")
    add("class_named_exception", "class Exception\nclass E: Exception\n")
    # every name the context or the generator treats specially, as class name, as parent, as type alias, as function, as variable
    for special in ["Union", "Tuple", "Callable", "Optional", "Any", "None", "Generic", "List", "Dict", "Set", "Range", "Slice", "Float",
                    "Bool", "Complex", "Collection", "Iterable", "Iterator", "NewType", "ABC", "object", "type", "int", "str", "print",
                    "range", "isinstance", "super", "self", "init", "__init__", "math", "typing"]:
        add("special_class_%s" % special, "class %s\n" % special)
        add("special_class_used_%s" % special, "class %s(def v: Int)\ndef o := %s(1)\nprint(o.v)\n" % (special, special))
        add("special_parent_%s" % special, "class A: %s\n" % special)
        add("special_parent_args_%s" % special, "class A(x: Int): %s(x)\n" % special)
        add("special_alias_%s" % special, "type %s: Int when self > 0\n" % special)
        add("special_alias_of_%s" % special, "type T: %s\n" % special)
        add("special_function_%s" % special, "def %s(x: Int) -> Int => x\nprint(%s(1))\n" % (special, special))
        add("special_variable_%s" % special, "def %s := 1\nprint(%s)\n" % (special, special))
        add("special_annotation_%s" % special, "def v: %s := 1\n" % special)
        add("special_generic_%s" % special, "def v: %s[Int] := 1\n" % special)
        add("special_interface_%s" % special, "type %s\n    def m(self) -> Int\nclass I: %s\n    def m(self) -> Int => 1\n" % (special, special))
        add("special_raise_%s" % special, "def f() raise [%s] => print(1)\n" % special)
    add("type_alias_self", "type T: T\n")
    add("type_alias_self_when", "type T: T when self > 0\n")
    add("type_alias_cycle", "type T: U\ntype U: T\n")
    add("generic_self", "class A[T]: A[T]\n")
    add("generic_self_other_argument", "class A[T]: A[Int]\n    def x: Int := 1\n")
    add("generic_self_nested_argument", "class A[T]: A[List[T]]\n")
    add("generic_mutual", "class A[T]: B[T]\nclass B[U]: A[U]\n")
    add("generic_mutual_other_argument", "class A[T]: B[Int]\nclass B[U]: A[Str]\ndef a := A[Int]()\n")
    add("generic_cycle3", "class A[T]: B[T]\nclass B[T]: C[T]\nclass C[T]: A[Int]\n")
    add("generic_and_plain_cycle", "class A: B[Int]\nclass B[T]: A\n")
    add("cycle_through_second_parent", "class P\nclass A: P, B\nclass B: P, A\n")
    add("cycle_with_use", "class A: B\nclass B: A\ndef a := A()\nprint(a)\n")
    add("cycle_exception", "class E1(msg: Str): E2(msg)\nclass E2(msg: Str): E1(msg)\ndef f() raise [E1] => raise E1(\"m\")\n")
    add("interface_cycle", "type I: J\ntype J: I\n")
    add("alias_cycle_generic", "type T[A]: T[Int]\n")
    add("dup_parent", "class A\nclass B: A, A\n")
    # empty tuples and odd definitions
    add("empty_tuple_lhs", "def () := 3\n")
    add("empty_tuple_rhs", "def x := ()\n")
    add("empty_tuple_both", "def () := ()\n")
    add("tuple_arity_mismatch", "def (a, b) := (1, 2, 3)\n")
    add("tuple_arity_mismatch2", "def (a, b, c) := (1, 2)\n")
    add("nested_empty_tuple", "def (a, ()) := (1, ())\n")
    add("def_literal", "def 3 := 4\n")
    add("def_string", "def \"a\" := 4\n")
    add("def_call", "def f() := 4\n")
    add("def_nothing", "def\n")
    add("def_fin_nothing", "def fin\n")
    add("assign_to_literal", "3 := 4\n")
    add("assign_to_call", "f() := 4\n")
    add("reassign_tuple", "def (a, b) := (1, 2)\n(a, b) := (3, 4)\n")
    add("reassign_empty_tuple", "() := ()\n")
    # strings
    for i, s in enumerate(['"{"', '"}"', '"{{"', '"}}"', '"{}"', '"{ }"', '"{{}"', '"{}}"', '"{a"', '"a}"',
                           '"{"a"}"', '"{\\"}"', '"\\"', '"\\\\"', '"{a{b}c}"', '"{def}"', '"{:=}"',
                           '"{\n}"', '"a\nb"', '"', '""', '""""', '""""""', '"""a"""', '"""a""', '""a"""',
                           '"{"{"{a}"}"}"', '"{a}{b}{c}"', '"{1 + }"', '"{(}"', '"{)}"', '"{!}"', '"{\t}"',
                           '"é"', '"{é}"', '"""é"""', '"\r\n"', '"{x}" "{y}"',
                           # string literals (empty, adjacent, doc-strings) INSIDE an interpolated expression, last and not last:
                           # the token passes run on these token lists too, without the final end-of-file token
                           '"{""}"', '"{a + ""}"', '"{"" "a"}"', '"{"a" ""}"', '"{"" ""}"', '"{"" "" ""}"', '"{f("")}"', '"{"" + a}"',
                           '"{""""""}"', '"{"""a"""}"', '"{"""a""" "b"}"', '"{"a" """b"""}"', '"{"{""}"}"', '"{a}{""}"',
                           '"{"" # c}"', '"{""\n}"', '"{"" }"', '"{ ""}"', '"{("")}"', '"{[""]}"', '"{"": 1}"']):
        add("string_%d" % i, "def x := %s\n" % s)
        add("string_stmt_%d" % i, "%s\n" % s)
        add("string_print_%d" % i, "def a := 1\nprint(%s)\nprint(a)\n" % s)
    # deep nesting (bounded by 40)
    for n in (10, 20, 40):
        add("parens_%d" % n, "def x := " + "(" * n + "1" + ")" * n + "\n")
        # strings interpolated inside strings, n levels deep, and side by side at every level
        add("nested_interpolation_%d" % n, "def x := 1\ndef s := " + '"{' * n + "x" + '}"' * n + "\n")
        add("nested_interpolation_pairs_%d" % n, "def x := 1\ndef s := " + '"{' * (n // 2) + "x" + '}{x}"' * (n // 2) + "\n")
        add("open_parens_%d" % n, "def x := " + "(" * n + "1\n")
        add("brackets_%d" % n, "def x := " + "[" * n + "1" + "]" * n + "\n")
        add("braces_%d" % n, "def x := " + "{" * n + "1" + "}" * n + "\n")
        add("not_chain_%d" % n, "def x := " + "not " * n + "True\n")
        add("neg_chain_%d" % n, "def x := " + "-" * n + "1\n")
        add("sqrt_chain_%d" % n, "def x := " + "sqrt " * n + "1\n")
        add("if_nest_%d" % n, "".join(" " * (4 * i) + "if True then\n" for i in range(n)) + " " * (4 * n) + "print(1)\n")
        add("indent_jump_%d" % n, "if True then\n" + " " * (4 * n) + "print(1)\n")
        add("add_chain_%d" % n, "def x := " + " + ".join(["1"] * n) + "\n")
        add("mixed_chain_%d" % n, "def x := " + " ".join("1 %s" % op for op, _ in zip("+-*/" * n, range(n))) + " 1\n")
        add("cmp_chain_%d" % n, "def x := " + " < ".join(["1"] * n) + "\n")
        add("and_chain_%d" % n, "def x := " + " and ".join(["True"] * n) + "\n")
        add("call_chain_%d" % n, "def x := f" + "()" * n + "\n")
        add("attr_chain_%d" % n, "def x := a" + ".b" * n + "\n")
        add("index_chain_%d" % n, "def x := a" + "[0]" * n + "\n")
        add("question_chain_%d" % n, "def x := a" + " ? b" * n + "\n")
        add("pow_chain_%d" % n, "def x := " + " ^ ".join(["2"] * n) + "\n")
        add("range_chain_%d" % n, "def x := " + " .. ".join(["1"] * n) + "\n")
        add("fun_type_chain_%d" % n, "def f(g: " + " -> ".join(["Int"] * n) + ") => g\n")
        add("generic_nest_%d" % n, "def x: " + "List[" * n + "Int" + "]" * n + " := []\n")
        add("tuple_type_nest_%d" % n, "def x: " + "(" * n + "Int" + ")" * n + " := 1\n")
        add("lambda_chain_%d" % n, "def x := " + "\\a => " * n + "a\n")
        add("handle_nest_%d" % n, "def f() -> Int raise [Exception] => 1\ndef g() -> Int =>\n" +
            "    f()" + "".join(" handle\n" + " " * (4 * (i + 2)) + "err: Exception => f()" for i in range(min(n, 10))) +
            " handle\n" + " " * (4 * (min(n, 10) + 2)) + "err: Exception => 1\n")
    # long files (bounded by 200 lines / 1 KiB)
    add("many_defs", "".join("def v%d := %d\n" % (i, i) for i in range(100)))
    add("many_prints", "print(1)\n" * 120)
    add("many_classes", "".join("class K%d\n    def a: Int := %d\n" % (i, i) for i in range(40)))
    add("many_funs", "".join("def f%d(x: Int) -> Int => x\n" % i for i in range(35)))
    add("same_def_100", "def x := 1\n" * 100)
    add("many_blank", "\n" * 200)
    add("many_comments", "# c\n" * 200)
    add("shadow_chain", "def x := 1\n" + "def x := x + 1\n" * 60)
    # empty-ish files
    for i, t in enumerate(["", "\n", "\n\n\n", " ", "    ", "# only comment", "# c\n", "\r\n", "\r", "\t", "\x00",
                           "    \n    \n", "pass", "pass\n", "_", "_\n", "self", "None", "()", "[]", "{}", "(", ")",
                           "=>", ":=", "def", "class", "type", "if", "match", "handle", "raise", "return", "for",
                           "while", "import", "from", "with", "forward", "vararg", "fin", "pure", "\\", "?", ".",
                           "..", "::", "|", ",", ":", "é", "    pass\n", "        pass\n    pass\npass\n"]):
        add("tiny_%d" % i, t)
    # control flow / handle / match with no arms or odd arms
    add("match_no_arms", "match 1\n")
    add("match_no_arms2", "match 1\nprint(2)\n")
    add("handle_no_arms", "def f() -> Int raise [Exception] => 1\nf() handle\n")
    add("handle_no_arms2", "def f() -> Int raise [Exception] => 1\nf() handle\nprint(1)\n")
    add("handle_on_literal", "1 handle\n    err: Exception => 2\n")
    add("handle_bad_arm", "def f() -> Int raise [Exception] => 1\nf() handle\n    1 => 2\n")
    add("handle_underscore", "def f() -> Int raise [Exception] => 1\nf() handle\n    _ => 2\n")
    add("handle_tuple_arm", "def f() -> Int raise [Exception] => 1\nf() handle\n    (a, b): Exception => 2\n")
    add("match_tuple_arity", "match (1, 2)\n    (a, b, c) => print(a)\n")
    add("match_empty_tuple", "match ()\n    () => print(1)\n")
    add("if_no_body", "if True then\n")
    add("if_else_only", "else print(1)\n")
    add("for_no_body", "for i in 0 .. 3 do\n")
    add("while_no_body", "while True do\n")
    add("for_empty_tuple", "for () in [] do pass\n")
    add("for_tuple", "for (a, b) in [(1, 2)] do print(a)\n")
    add("for_in_int", "for i in 3 do print(i)\n")
    add("range_step_zero", "for i in 0 .. 3 .. 0 do print(i)\n")
    add("range_strings", "for i in \"a\" .. \"b\" do print(i)\n")
    add("return_top", "return 1\n")
    add("return_nothing_top", "return\n")
    add("raise_top", "raise Exception(\"a\")\n")
    add("raise_nothing", "raise\n")
    add("raise_int", "raise 3\n")
    add("break_top", "break\n")
    add("continue_top", "continue\n")
    add("break_in_loop", "while True do break\n")
    add("continue_in_loop", "for i in 0 .. 2 do continue\n")
    add("retry", "retry\n")
    add("with", "with open(\"a\") as f do print(f)\n")
    add("with_noas", "with open(\"a\") do print(1)\n")
    # functions / classes odd shapes
    add("fun_no_body", "def f()\n")
    add("fun_dup_args", "def f(x: Int, x: Int) => x\n")
    add("fun_self_top", "def f(self) => self\n")
    add("fun_default_before_nondefault", "def f(x: Int := 1, y: Int) => x\n")
    add("fun_vararg", "def f(vararg x: Int) => print(x)\nf(1, 2, 3)\n")
    add("fun_vararg_default", "def f(vararg x: Int := 3) => print(x)\n")
    add("fun_vararg_twice", "def f(vararg x: Int, vararg y: Int) => print(x)\n")
    add("fun_arg_literal", "def f(3) => 1\n")
    add("fun_arg_untyped", "def f(x) => x\n")
    add("fun_nested", "def f() =>\n    def g() => 1\n    g()\n")
    add("fun_raise_non_exception", "def f() raise [Int] => 1\n")
    add("fun_raise_unknown", "def f() raise [Nope] => 1\n")
    add("fun_raise_empty", "def f() raise [] => 1\n")
    add("fun_ret_unknown", "def f() -> Nope => 1\n")
    add("fun_recursive_untyped", "def f(x: Int) => f(x)\n")
    add("fun_mutual", "def f(x: Int) -> Int => g(x)\ndef g(x: Int) -> Int => f(x)\n")
    add("call_undefined", "f(1)\n")
    add("call_int", "3(1)\n")
    add("call_str_method", "\"a\".nope()\n")
    add("op_method_no_args", "class A\n    def +() -> A => self\n")
    add("op_method_many_args", "class A\n    def +(self, a: A, b: A) -> A => self\n")
    add("op_top_level", "def +(a: Int, b: Int) -> Int => a\n")
    add("class_empty_body", "class A\n")
    add("class_empty_args", "class A()\n")
    add("class_init_and_args", "class A(x: Int)\n    def init(self) => pass\n")
    add("class_dunder_init", "class A\n    def __init__(self) => pass\n")
    add("class_init_twice", "class A\n    def init(self) => pass\n    def init(self, x: Int) => pass\n")
    add("class_field_twice", "class A\n    def x: Int := 1\n    def x: Int := 2\n")
    add("class_method_twice", "class A\n    def f(self) => 1\n    def f(self) => 2\n")
    add("class_twice", "class A\nclass A\n")
    add("class_twice_files", "class A\n", "class A\n")
    add("fun_twice_files", "def f() => 1\n", "def f() => 2\n")
    add("class_parent_unknown", "class A: Nope\n")
    add("class_parent_args_unknown", "class A: Nope(1)\n")
    add("class_parent_int", "class A: Int\ndef a := A()\n")
    add("class_parent_literal_arg", "class A(x: Int)\nclass B: A(1)\n")
    add("class_parent_expr_arg", "class A(x: Int)\nclass B(y: Int): A(y + 1)\n")
    add("class_arg_untyped", "class A(x)\n")
    add("class_arg_self", "class A(self)\n")
    add("class_arg_self_typed", "class A(self: A)\n")
    add("class_arg_vararg", "class A(vararg x: Int)\n")
    add("class_generic", "class A[T](def x: T)\ndef a := A[Int](1)\n")
    add("class_generic_unused", "class A[T]\ndef a := A()\n")
    add("class_generic_dup", "class A[T, T]\n")
    add("class_body_stmt", "class A\n    print(1)\n")
    add("class_body_expr", "class A\n    1 + 2\n")
    add("class_nested", "class A\n    class B\n")
    add("type_no_body", "type T\n")
    add("type_field", "type T\n    def x: Int\n")
    add("type_when_empty", "type T: Int when\n")
    add("type_when_nonbool", "type T: Int when 3\n")
    add("type_impl_missing", "type T\n    def f(self) -> Int\nclass A: T\n")
    add("interface_instantiated", "type T\n    def f(self) -> Int\ndef t := T()\n")
    add("import_odd", "import\n")
    add("import_as_mismatch", "import a, b as c\n")
    add("from_import", "from a import b as c, d\n")
    add("import_and_use", "import math\nprint(math.pi)\n")
    add("self_top", "print(self)\n")
    add("self_assign", "self := 3\n")
    add("none_ops", "def x := None + None\n")
    add("none_call", "None()\n")
    add("none_attr", "None.x\n")
    add("underscore_expr", "def x := _ + 1\n")
    add("underscore_def", "def _ := 1\n")
    add("question_none", "def x := None ? None\n")
    add("int_huge", "def x := " + "9" * 400 + "\n")
    add("float_huge", "def x := " + "9" * 400 + ".5\n")
    add("enum_huge", "def x := 1E" + "9" * 50 + "\n")
    add("enum_empty", "def x := 1E\n")
    add("enum_neg", "def x := 1E-3\n")
    add("enum_dot", "def x := 1.5E3.2\n")
    add("int_leading_zero", "def x := 007\n")
    add("real_trailing_dot", "def x := 1.\n")
    add("real_range", "def x := 1..2\n")
    add("slice", "def l := [1, 2, 3]\ndef x := l[0 :: 2]\n")
    add("slice_incl_step", "def l := [1, 2, 3]\ndef x := l[0 ::= 2 :: 1]\n")
    add("index_str", "def x := \"abc\"[\"a\"]\n")
    add("index_tuple", "def t := (1, 2)\ndef x := t[5]\n")
    add("dict", "def d := {1 => 2, 3 => 4}\nprint(d[1])\n")
    add("dict_mixed", "def d := {1 => 2, 3}\n")
    add("set_builder", "def s := {x | x in [1, 2], x > 1}\n")
    add("list_builder", "def s := [x | x in [1, 2], x > 1]\n")
    add("list_builder_nocond", "def s := [x | x in [1, 2]]\n")
    add("list_builder_bad", "def s := [x | 3]\n")
    add("dict_builder", "def s := {x => x | x in [1, 2]}\n")
    add("empty_list_ann", "def l: List[Int] := []\n")
    add("empty_list", "def l := []\n")
    add("empty_set", "def l := {}\n")
    add("list_mixed", "def l := [1, \"a\", None]\n")
    add("isa", "def x := 1\nif x isa Int then print(x)\n")
    add("isa_unknown", "def x := 1\nif x isa Nope then print(x)\n")
    add("is_none", "def x: Int? := None\nif x is None then print(1)\n")
    add("ternary_mismatch", "def x := if True then 1 else \"a\"\nprint(x)\n")
    add("if_expr_no_else", "def x := if True then 1\n")
    add("match_expr_mismatch", "def x := match 1\n    1 => \"a\"\n    _ => 2\n")
    add("lambda", "def f := \\x: Int => x + 1\nprint(f(1))\n")
    add("lambda_noargs", "def f := \\ => 1\n")
    add("lambda_untyped", "def f := \\x => x\n")
    add("forward", "class A\n    def b: B forward f\nclass B\n    def f(self) => 1\n")
    add("pure", "def pure f(x: Int) -> Int => x\n")
    add("docstring_fun", "def f() =>\n    \"\"\"doc\"\"\"\n    1\n")
    add("docstring_class", "class A\n    \"\"\"doc\"\"\"\n    def x: Int := 1\n")
    add("docstring_only", "\"\"\"doc\"\"\"\n")
    add("docstring_unterminated", "\"\"\"doc\n")
    add("comment_after_handle", "def f() -> Int raise [Exception] => 1\nf() handle # c\n    err: Exception => 1\n")
    add("crlf_program", "def x := 1\r\nif x > 0 then\r\n    print(x)\r\nelse\r\n    print(0)\r\n")
    add("cr_only", "def x := 1\rdef y := 2\r")
    add("tab_indent", "if True then\n\tprint(1)\n")
    add("odd_indent", "if True then\n   print(1)\n")
    add("indent_5", "if True then\n     print(1)\n")
    add("indent_first_line", "    def x := 1\n")
    add("indent_2_first", "  def x := 1\n")
    add("dedent_below_zero", "if True then\n    print(1)\n  print(2)\nprint(3)\n")
    add("nul", "def x := 1\x00\n")
    add("non_ascii_id", "def é := 1\n")
    add("emoji_comment", "# 🐍\ndef x := 1\n")
    add("emoji_string", "def x := \"🐍\"\nprint(x)\n")
    add("emoji_string_err", "def x := \"🐍\" + 1 +\n")
    add("emoji_string_typeerr", "def x: Int := \"🐍🐍🐍🐍🐍🐍🐍🐍\"\n")
    add("wide_before_err", "def é := \"ééééééééééééé\" ; 3\n")
    add("err_last_line_no_nl", "def x := 1\ndef y := x +")
    add("err_after_blank_lines", "def x := 1\n\n\n\n\n)")
    add("typeerr_multiline_string", "def x: Int := \"a\nb\nc\"\n")
    add("typeerr_in_fstring", "def x := \"{1 + \"a\"}\"\n")
    add("typeerr_in_fstring_line3", "def a := 1\ndef b := 2\ndef x := \"abc {a + nope} def\"\n")
    add("undefined_in_fstring", "print(\"{nope}\")\n")
    add("fstring_call", "def f(x: Int) -> Int => x\nprint(\"{f(\"a\")}\")\n")
    add("two_errors_two_files", "def x: Int := \"a\"\n", "def y: Str := 1\n")
    add("syntax_and_type_files", "def x := (\n", "def y: Str := 1\n")
    add("four_files", "class A\n    def a: Int := 1\n", "class B: A\n", "def b := B()\n", "print(b.a)\n")
    return c


@st.composite
def inheritance_shapes(draw):
    """Structurally generated class graphs: 1-5 classes, plain or generic, parents drawn among ALL classes (cycles,
    self references, diamonds), generic arguments drawn among the class's own parameter, primitives and instantiations."""
    n = draw(st.integers(1, 5))
    names = ["K%d" % i for i in range(n)]
    arity = [draw(st.sampled_from([0, 0, 1, 1, 2])) for _ in range(n)]
    lines = []
    for i, c in enumerate(names):
        params = ["T", "U"][:arity[i]]
        head = "class %s%s" % (c, "[%s]" % ", ".join(params) if params else "")
        if draw(st.booleans()):
            head += "(def f%d: Int)" % i
        parents = []
        for _ in range(draw(st.integers(0, 2))):
            j = draw(st.integers(0, n - 1))
            args = []
            for _k in range(arity[j]):
                args.append(draw(st.sampled_from(params + ["Int", "Str", "List[Int]", names[draw(st.integers(0, n - 1))]])))
            p = names[j] + ("[%s]" % ", ".join(args) if args else "")
            if "(def" in head and draw(st.booleans()):
                p += "(f%d)" % i
            parents.append(p)
        if parents:
            head += ": " + ", ".join(parents)
        lines.append(head)
        if draw(st.booleans()):
            lines.append("    def g%d: Int := %d" % (i, i))
    if draw(st.booleans()):
        j = draw(st.integers(0, n - 1))
        lines.append("def obj := %s%s(%s)" % (names[j], "[Int]" * min(arity[j], 1) if arity[j] == 1 else "",
                                              "1" if draw(st.booleans()) else ""))
    return "\n".join(lines) + "\n"


@st.composite
def _case(draw, texts):
    gen = draw(st.sampled_from(["mut", "mut", "mut", "rand", "multi", "inherit", "genbase", "genbase"]))
    if gen == "genbase":
        # freshly generated programs (WideGen, API-shaped, ScopeGen, C02's shape stress) as they are or with 1-4 mutations
        from pbt import apigen, p_c02, scopegen, widegen
        which = draw(st.sampled_from(["wide", "wide", "api", "scope", "ctor", "shape"]))
        if which == "wide":
            base = draw(widegen.programs())["src"]
        elif which == "api":
            base = draw(apigen.programs())["src"]
        elif which == "scope":
            base = draw(scopegen.scope_case(draw(st.sampled_from(["assign", "read"])), False))["src"]
        elif which == "ctor":
            base = draw(scopegen.ctor_case())["src"]
        else:
            base = draw(p_c02.shape_stress())["src"]
        base = base[:MAX_LEN]
        if draw(st.integers(0, 3)) == 0:
            return {"gen": "genbase:" + which, "files": [[base, None]], "annotate": draw(st.booleans())}
        m = draw(mutate.mutated([base], max_len=MAX_LEN, max_lines=MAX_LINES))
        return {"gen": "genbase:" + which, "files": [[m["text"], None]], "annotate": draw(st.booleans()), "kinds": m["kinds"]}
    if gen == "inherit":
        text = draw(inheritance_shapes())
        if draw(st.integers(0, 3)) == 0:
            half = len(text) // 2
            cut = text.index("\n", half) + 1 if "\n" in text[half:] else len(text)
            return {"gen": "inherit", "files": [[text[:cut], "src/a.mamba"], [text[cut:], "src/b.mamba"]],
                    "annotate": draw(st.booleans()), "dir": "src"}
        return {"gen": "inherit", "files": [[text, None]], "annotate": draw(st.booleans())}
    annotate = draw(st.booleans())
    if gen == "rand":
        text = draw(mutate.random_text())
        return {"gen": "rand", "files": [[text, None]], "annotate": annotate}
    if gen == "multi":
        n = draw(st.integers(2, 4))
        files = []
        for i in range(n):
            if draw(st.booleans()):
                t = draw(mutate.mutated(texts, max_len=MAX_LEN, max_lines=MAX_LINES))["text"]
            else:
                t = texts[draw(st.integers(0, len(texts) - 1))][:MAX_LEN]
            files.append([t, "d/f%d.mamba" % i])
        return {"gen": "multi", "files": files, "annotate": annotate, "dir": "d"}
    m = draw(mutate.mutated(texts, max_len=MAX_LEN, max_lines=MAX_LINES))
    path = draw(st.sampled_from([None, "src/a.mamba"]))
    return {"gen": "mut", "files": [[m["text"], path]], "annotate": annotate, "kinds": m["kinds"],
            "dir": "src" if path else ""}


class C03:
    id = "C03"
    cases = {"quick": 2500, "thorough": 60000}
    cpu_limit = CPU_LIMIT
    rule = ("inputs: (mut) 1-4 token/line-level mutations (delete/insert/replace/swap/duplicate/"
            "truncate, line delete/duplicate/swap, indentation shift, splice) of the repository's "
            "tests/resource/**/*.mamba and of /verif/pbt/seeds, (rand) random sequences over Mamba's "
            "lexical vocabulary plus hostile characters, (multi) 2-4 such files as one project, (inherit) "
            "structurally generated class graphs of 1-5 plain or generic classes whose parents are drawn among all classes "
            "(self references, cycles, diamonds, varying generic arguments, split over two files), (genbase) freshly generated "
            "WideGen / API-shaped / ScopeGen / constructor / shape-stress programs as they are or with 1-4 mutations, (adv) a "
            "fixed catalogue of adversarial shapes; bounds: <=1 KiB and <=200 lines per file, nesting <=40, "
            "<=4 files. Non-trivial: the (first) text lexes to >=3 tokens, i.e. got past the first lexer "
            "error path; distinct by SHA-1 of files+flag. Oracle: isolated worker returns ok (one string "
            "per file) or err (non-empty list of non-empty strings); panic, abort, CPU time-out confirmed "
            "on an isolated re-run are violations.")
    assumptions = [
        "stack size of the request thread equals the 8 MiB main-thread stack of the mamba binary",
        "overflow checks and debug assertions on, as in `cargo run`/`cargo test` builds",
        "time bound: 120 s thread CPU per input of <=1 KiB (>10x head-room over the worst legitimate cubic case)",
    ]
    strict = False

    def __init__(self):
        self._sigs = _known_signatures(self.id)
        self._texts = None

    def texts(self):
        if self._texts is None:
            self._texts = [t for _, t in corpus.all_seeds()]
        return self._texts

    def strategy(self, tier, switches):
        return _case(self.texts())

    def fixed_cases(self, tier, switches):
        for c in adversarial_catalogue():
            for annotate in (False, True):
                yield dict(c, annotate=annotate)

    def summarize(self, case):
        return {"gen": case.get("gen"), "annotate": case.get("annotate"),
                "files": [[f[0][:300], f[1]] for f in case["files"]]}

    def check(self, worker, case, stats):
        files = [(f[0], f[1]) for f in case["files"]]
        reply = worker.transpile(files, case.get("annotate", False), dir=case.get("dir", ""),
                                 cpu_limit=CPU_LIMIT)
        oc = outcome(reply)
        stats.inc("gen:" + case.get("gen", "?"))
        stats.inc("outcome:" + oc)
        for k in case.get("kinds", []) or []:
            stats.inc("mutation:" + k)
        if oc in ("ok", "err"):
            # classification for the non-trivial rule (needs the hook)
            lx = worker.lex(files[0][0])
            ntok = len(lx.get("tokens", []))
            if "panic" in lx or "abort" in lx:
                return self._crash(lx, case, stats, stage="lex-hook")
            if oc == "err":
                stats.inc("stage:" + ("lex" if "lexerr" in lx else "parse-or-type"))
            else:
                stats.inc("stage:ok")
            if "tokens" in lx and ntok >= 3:
                stats.mark_nontrivial(case, key=case.get("gen"))
            if oc == "ok":
                v = reply["ok"]
                if not (isinstance(v, list) and len(v) == len(files) and all(isinstance(s, str) for s in v)):
                    return {"what": "ok without one source per input file", "reply": reply}
                return None
            v = reply["err"]
            if not (isinstance(v, list) and v and all(isinstance(s, str) and s.strip() for s in v)):
                return {"what": "rejection without (non-empty) diagnostics", "reply": reply}
            return None
        return self._crash(reply, case, stats, stage="pipeline")

    def _crash(self, reply, case, stats, stage):
        oc = outcome(reply)
        if oc == "panic":
            if not self.strict:
                for fid, sig in self._sigs:
                    if panic_matches(reply, sig):
                        stats.inc("excluded_known:" + fid)
                        return None
            return {"what": "panic in %s: %s @ %s" % (stage, reply.get("panic"), reply.get("at")),
                    "panic": reply.get("panic"), "at": reply.get("at")}
        if oc == "abort":
            # re-run alone in a fresh worker: aborts must reproduce to be reported
            w2 = Worker(cpu_limit=CPU_LIMIT)
            try:
                r2 = w2.transpile([(f[0], f[1]) for f in case["files"]], case.get("annotate", False),
                                  dir=case.get("dir", ""))
            finally:
                w2.close()
            if outcome(r2) != "abort":
                return {"inconclusive": True, "why": "abort did not reproduce in a fresh worker", "first": reply}
            if not self.strict:
                for fid, sig in self._sigs:
                    if "abort" in sig and re.search(sig["abort_input"], "\n".join(f[0] for f in case["files"]), re.S):
                        stats.inc("excluded_known:" + fid)
                        return None
            return {"what": "abort (%s) in %s" % (reply.get("abort"), stage), "abort": reply.get("abort")}
        if oc == "timeout":
            w2 = Worker(cpu_limit=2 * CPU_LIMIT)
            try:
                r2 = w2.transpile([(f[0], f[1]) for f in case["files"]], case.get("annotate", False),
                                  dir=case.get("dir", ""), cpu_limit=2 * CPU_LIMIT)
            finally:
                w2.close()
            if outcome(r2) == "timeout":
                return {"what": "no result within %.0f s CPU (confirmed on isolated re-run)" % (2 * CPU_LIMIT)}
            return {"inconclusive": True, "why": "first run exceeded the CPU bound, isolated re-run did not"}
        return {"inconclusive": True, "why": "worker wedged or unknown reply", "reply": reply}
