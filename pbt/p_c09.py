"""C09 — definite assignment: no read of a possibly undefined variable or field."""
import re

from hypothesis import strategies as st

from pbt import pyoracle, scopegen, sites
from pbt.worker import outcome

WORLD = """class HErr(msg: Str): Exception(msg)
def hr() raise [HErr] => print(1)
def vi: Int := 3
def vb: Bool := True
"""

SWITCHES = set()
EXCLUDED = {}
REJECT = ["never_defined", "defined_later", "only_then", "only_else", "only_then_no_else", "only_arm", "arm_binding_after",
          "for_var_after", "builder_var_after", "for_local_after", "while_local_after", "fun_local_outside", "param_outside",
          "field_before_assign", "field_one_path", "global_after_function", "handle_var_after", "nested_block_local_after"]
ACCEPT = ["dominated_same_block", "dominated_enclosing", "dominated_deep", "shadow_new_type", "shadow_in_block", "field_after_assign",
          "field_both_paths", "assigned_in_branch", "function_defined_later", "arm_binding_inside", "for_var_inside",
          "param_inside", "global_before_function"]
USES = ["print({n})", "def u9 := {n}", "vi := {n}", "print({n} + 1)", "if {n} > 0 then print(1)"]


@st.composite
def _case(draw):
    direction = draw(st.sampled_from(["reject", "reject", "accept"]))
    kind = draw(st.sampled_from(REJECT if direction == "reject" else ACCEPT))
    position = draw(st.sampled_from(sites.POSITIONS))
    use = draw(st.sampled_from(USES))
    if use.startswith("vi :=") and "no_global_assign_in_function" in SWITCHES:
        # open finding F46: assignments to a top-level variable inside a function lack `global`; keep them at top level
        if position in ("fun", "method", "nested_if_in_fun", "for_in_method") or kind in ("param_inside",):
            EXCLUDED["no_global_assign_in_function"] = EXCLUDED.get("no_global_assign_in_function", 0) + 1
            use = "def u9 := {n}"
    n = "tz"
    u = use.format(n=n)
    top_defs = []
    s = None
    if kind == "never_defined":
        s = [u]
    elif kind == "defined_later":
        s = [u, "def tz := 1"]
    elif kind == "only_then":
        s = ["if vb then", "    def tz := 1", "    print(tz)", "else", "    print(0)", u]
    elif kind == "only_else":
        s = ["if vb then", "    print(0)", "else", "    def tz := 1", u]
    elif kind == "only_then_no_else":
        s = ["if vb then", "    def tz := 1", u]
    elif kind == "only_arm":
        s = ["match vi", "    1 => def tz := 1", "    _ => print(0)", u]
    elif kind == "arm_binding_after":
        s = ["match vi", "    1 => print(0)", "    tz => print(tz)", u]
    elif kind == "for_var_after":
        s = ["for tz in 0 .. 2 do print(tz)", u]
    elif kind == "builder_var_after":
        s = ["def built := [tz * 2 | tz in [1, 2]]", u]
    elif kind == "for_local_after":
        s = ["for fi in 0 .. 2 do", "    def tz := fi", "    print(tz)", u]
    elif kind == "while_local_after":
        s = ["def ww := 1", "while ww > 0 do", "    def tz := ww", "    ww := ww - 1", u]
    elif kind == "nested_block_local_after":
        s = ["if vb then", "    if vi > 0 then", "        def tz := 1", "        print(tz)", "    " + u]
    elif kind == "fun_local_outside":
        top_defs = ["def fl(fp: Int) -> Int =>", "    def tz := fp", "    tz"]
        s = [u]
    elif kind == "param_outside":
        top_defs = ["def fl(tz: Int) -> Int => tz"]
        s = [u]
    elif kind == "handle_var_after":
        s = ["hr() handle", "    tz: HErr => print(1)", "print(2)", use.format(n="tz") if "+" not in use and ">" not in use else "print(tz)"]
    elif kind == "global_after_function":
        top_defs = ["def fl() -> Int => tz", "def tz := 1"]
        s = ["print(fl())"]
        position = "top"
    elif kind in ("field_before_assign", "field_one_path", "field_after_assign", "field_both_paths"):
        body = {"field_before_assign": ["print(self.tv)", "self.tv := 1"],
                "field_one_path": ["if c then self.tv := 1", "print(self.tv)"],
                "field_after_assign": ["self.tv := 1", "print(self.tv)"],
                "field_both_paths": ["if c then", "    self.tv := 1", "else", "    self.tv := 2", "print(self.tv)"]}[kind]
        top_defs = ["class TK", "    def tv: Int", "    def __init__(self, c: Bool) =>"] + ["        " + l for l in body]
        s = ["def tk := TK(True)"]
        position = "top"
    elif kind == "dominated_same_block":
        s = ["def tz := 1", u]
    elif kind == "dominated_enclosing":
        s = ["def tz := 1", "if vb then"] + ["    " + u] + ["else", "    print(0)"]
    elif kind == "dominated_deep":
        s = ["def tz := 1", "for di in 0 .. 2 do", "    if vb then", "        match di", "            0 => " + (u if not u.startswith("if") else "print(tz)"),
             "            _ => print(0)"]
    elif kind == "shadow_new_type":
        s = ["def tz := \"str\"", "print(tz + \"x\")", "def tz := 2", u]
    elif kind == "shadow_in_block":
        s = ["def tz := \"str\"", "if vb then", "    def tz := 2", "    " + u, "print(0)"]
    elif kind == "assigned_in_branch":
        s = ["def tz := 0", "if vb then", "    tz := 1", u]
    elif kind == "function_defined_later":
        top_defs = ["def first() -> Int => second()", "def second() -> Int => 1"]
        s = ["def tz := first()", u]
    elif kind == "arm_binding_inside":
        s = ["match vi", "    1 => print(0)", "    tz =>", "        " + u]
    elif kind == "for_var_inside":
        s = ["for tz in 0 .. 2 do", "    " + (u if not u.startswith("vi :=") else "print(tz)")]
    elif kind == "param_inside":
        top_defs = ["def fl(tz: Int) =>", "    " + u]
        s = ["fl(1)"]
    elif kind == "global_before_function":
        top_defs = ["def tz := 1", "def fl() -> Int => tz"]
        s = ["print(fl())"]
    body = sites.place(position, s)
    return {"src": WORLD + "\n".join(top_defs + body) + "\n", "kind": kind, "direction": direction, "position": position,
            "use": use, "expect": "err" if direction == "reject" else "ok"}


class C09:
    id = "C09"
    cases = {"quick": 1500, "thorough": 50000}
    rule = ("one use site (print, initialiser, new value of a variable, operand, condition) of a name and one of 18 reject shapes "
            "(never defined; defined later in the same block; defined only in the then / else / only branch, in one match arm, in a "
            "nested block that is closed; match-arm binding, for variable, builder variable, handle variable used after its construct; "
            "local of a for / while body, of a function, a parameter used outside; field read in a constructor before its assignment or "
            "assigned on one path only; global defined after the function that reads it) or 13 accept shapes (definition dominates the "
            "use in the same, an enclosing or a deeply nested block; shadowing with another type followed by uses at the new type, in "
            "the same block and in an inner block; field read after assignment on all paths; variable defined before and assigned in a "
            "branch; function defined later; arm binding, for variable, parameter used inside), planted at one of 12 positions. Oracle: "
            "verdict by shape; accepted programs are additionally executed and must not raise NameError / UnboundLocalError / "
            "AttributeError. Non-trivial: every case; distinct by SHA-1 of the source; shape x position histogram reported.")
    assumptions = ["'defined in both branches, used after' is asserted in neither direction (mamba scopes by block, Python by function; "
                   "the statement can be read either way)",
                   "a verdict that differs from the expectation is re-run 10x; an unstable verdict is C12's finding"]
    strict = False

    def strategy(self, tier, switches):
        SWITCHES.update(s.split(".", 1)[1] for s in switches if "." in s)
        return st.one_of(_case(), _case(), _case(), scopegen.scope_case("read", True), scopegen.ctor_case())

    def summarize(self, case):
        if case.get("gen") in ("scope", "ctor"):
            return {"gen": case["gen"], "expect": case["expect"], "fault": case["fault"],
                    "program": case["src"][len(scopegen.HEADER if case["gen"] == "scope" else scopegen.CT_HEADER):]}
        return {k: case[k] for k in ("kind", "direction", "position", "use", "expect")} | {"tail": case["src"][len(WORLD):]}

    def check(self, worker, case, stats):
        r = worker.transpile1(case["src"], False)
        oc = outcome(r)
        if oc not in ("ok", "err"):
            stats.inc("crash_left_to_C03")
            return None
        for k, v in list(EXCLUDED.items()):
            stats.inc("excluded_known:" + k, v)
        EXCLUDED.clear()
        if case.get("gen") in ("scope", "ctor"):
            return self.check_scope(worker, case, stats, r, oc)
        stats.inc("shape:%s/%s" % (case["direction"], case["kind"]))
        stats.inc("position:" + case["position"])
        stats.mark_nontrivial({"src": case["src"]}, sample=self.summarize(case), key=case["kind"])
        tail = case["src"][len(WORLD):]
        if oc != case["expect"]:
            rr = worker.call({"op": "transpile_rep", "files": [[case["src"], None]], "dir": "", "annotate": False, "k": 10})
            if any(outcome(x) != oc for x in rr.get("results", [])):
                stats.inc("nondeterministic_left_to_C12")
                return None
            if case["expect"] == "err":
                return {"what": "a read of a possibly undefined name (%s) at %s is accepted" % (case["kind"], case["position"]),
                        "tail": tail}
            return {"what": "a read that a definition dominates (%s) at %s is rejected" % (case["kind"], case["position"]),
                    "diagnostics": r["err"][:2], "tail": tail}
        if oc == "err":
            if not (r["err"] and all(isinstance(d, str) and d.strip() for d in r["err"])):
                return {"what": "rejection without diagnostics"}
            return None
        got = pyoracle.run_module(r["ok"][0], 20000)
        stats.inc("executed")
        if got["exc"] in ("NameError", "UnboundLocalError", "AttributeError"):
            return {"what": "accepted program (%s at %s) raises %s when run: %s" % (case["kind"], case["position"], got["exc"],
                                                                                   got.get("excmsg")),
                    "python": r["ok"][0], "tail": tail}
        return None

    SUBJECT = re.compile(r"[Uu]ndefined|not defined|unassigned|not assigned|[Uu]nknown variable")

    def check_scope(self, worker, case, stats, r, oc):
        """ScopeGen / constructor cases: legal program by the scoping model, optionally one planted read of a name or field
        that is not defined on every path."""
        g = case["gen"]
        fault = case["fault"]
        stats.inc("%s:%s" % (g, ("fault/" + fault["kind"]) if fault else "legal"))
        for f in case["features"]:
            stats.inc("%s_feature:%s" % (g, f))
        stats.mark_nontrivial({"src": case["src"]}, sample=self.summarize(case), key=(g, fault["kind"] if fault else None))
        prog = case["src"][len(scopegen.HEADER if g == "scope" else scopegen.CT_HEADER):]
        if oc != case["expect"]:
            rr = worker.call({"op": "transpile_rep", "files": [[case["src"], None]], "dir": "", "annotate": False, "k": 10})
            if any(outcome(x) != oc for x in rr.get("results", [])):
                stats.inc("nondeterministic_left_to_C12")
                return None
            if case["expect"] == "err":
                return {"what": "a read of a name / field that is not defined on every path is accepted: %s" % (fault,),
                        "program": prog}
            if any(self.SUBJECT.search(d) for d in r["err"]):
                return {"what": "every read of this program is dominated by a definition, yet it is rejected as undefined",
                        "diagnostics": r["err"][:2], "program": prog}
            stats.inc("%s:legal_rejected_for_another_reason" % g)
            return None
        if oc == "err":
            if not (r["err"] and all(isinstance(d, str) and d.strip() for d in r["err"])):
                return {"what": "rejection without diagnostics"}
            return None
        got = pyoracle.run_module(r["ok"][0], 50000)
        stats.inc("executed")
        if got["exc"] in ("NameError", "UnboundLocalError", "AttributeError"):
            return {"what": "accepted %s program raises %s when run: %s" % (g, got["exc"], got.get("excmsg")),
                    "python": r["ok"][0], "program": prog}
        return None
