"""C07 — immutability: `fin` variables, fields and parameters are never reassigned."""
import re

from hypothesis import strategies as st

from pbt import scopegen, sites
from pbt.worker import outcome

WORLD = """class HErr(msg: Str): Exception(msg)
def hr() raise [HErr] => print(1)
def vi: Int := 3
class K(def f: Int)
    def g: Int := 1
"""
INNER = ["top", "for", "while", "then", "else", "match_arm", "match_default", "handle_arm"]
KINDS = ["var", "var", "var_annotated", "tuple", "param", "local", "self_field", "receiver_field", "undefined", "fin_field_receiver",
         "fin_field_self", "fin_class_arg"]
SWITCHES = set()
EXCLUDED = {}


def ind(lines, n=1):
    return [("    " * n) + l for l in lines]


@st.composite
def _case(draw):
    kind = draw(st.sampled_from(KINDS))
    if kind.startswith("fin_") and "no_fin_field" in SWITCHES:
        EXCLUDED["no_fin_field"] = EXCLUDED.get("no_fin_field", 0) + 1
        kind = "receiver_field"
    fin = draw(st.booleans())
    op = draw(st.sampled_from([":=", ":=", "+=", "-=", "*="]))
    defs = []
    shadow = []
    visible_fin = fin
    n_shadow = 0
    if kind in ("var", "var_annotated", "tuple"):
        position = draw(st.sampled_from(sites.POSITIONS))
        if kind == "tuple":
            defs.append("def %s(tx, ty) := (1, 2)" % ("fin " if fin else ""))
        else:
            defs.append("def %stx%s := 1" % ("fin " if fin else "", ": Int" if kind == "var_annotated" else ""))
        n_shadow = draw(st.integers(0, 2)) if position in ("top", "for", "while", "then", "else", "match_arm", "match_default",
                                                          "handle_arm") else 0
        for _ in range(n_shadow):
            how = draw(st.sampled_from(["same_block", "closed_block"]))
            sfin = draw(st.booleans())
            if how == "same_block":
                shadow.append("def %stx := %d" % ("fin " if sfin else "", draw(st.integers(2, 9))))
                visible_fin = sfin
            else:
                shadow += ["if vi > 0 then", "    def %stx := %d" % ("fin " if sfin else "", draw(st.integers(2, 9))),
                           "    print(tx)"]
        stmts = ["tx %s 7" % op]
        body = defs + shadow + sites.place(position, stmts)
    elif kind == "undefined":
        position = draw(st.sampled_from(sites.POSITIONS))
        visible_fin = True  # must be rejected
        body = sites.place(position, ["never_defined_zq %s 7" % op])
    elif kind in ("param", "local"):
        position = draw(st.sampled_from(INNER))
        inner = sites.place(position, ["tp %s 7" % op])
        if kind == "param":
            body = ["def target(%stp: Int) =>" % ("fin " if fin else "")] + ind(inner) + ["target(1)"]
        else:
            body = ["def target(tq: Int) =>", "    def %stp := tq" % ("fin " if fin else "")] + ind(inner) + ["target(1)"]
    elif kind == "self_field":
        position = draw(st.sampled_from(INNER))
        inner = sites.place(position, ["self.g %s 7" % op])
        body = ["class T(def f: Int)", "    def g: Int := 1", "    def tm(%sself) =>" % ("fin " if fin else "")] + ind(inner, 2)
    elif kind == "receiver_field":
        position = draw(st.sampled_from(sites.POSITIONS))
        which = draw(st.sampled_from(["f", "g"]))
        body = ["def %stk := K(1)" % ("fin " if fin else "")] + sites.place(position, ["tk.%s %s 7" % (which, op)])
    elif kind == "fin_field_receiver":
        position = draw(st.sampled_from(sites.POSITIONS))
        visible_fin = True
        body = ["class T(def f: Int)", "    def fin g: Int := 1", "def tk := T(1)"] + sites.place(position, ["tk.g %s 7" % op])
    elif kind == "fin_field_self":
        position = draw(st.sampled_from(INNER))
        visible_fin = True
        inner = sites.place(position, ["self.g %s 7" % op])
        body = ["class T(def f: Int)", "    def fin g: Int := 1", "    def tm(self) =>"] + ind(inner, 2)
    else:  # fin_class_arg
        position = draw(st.sampled_from(sites.POSITIONS))
        visible_fin = True
        body = ["class T(def fin f: Int)", "def tk := T(1)"] + sites.place(position, ["tk.f %s 7" % op])
    return {"src": WORLD + "\n".join(body) + "\n", "kind": kind, "position": position, "fin": visible_fin, "op": op,
            "shadowing": n_shadow, "expect": "err" if visible_fin else "ok"}


class C07:
    id = "C07"
    cases = {"quick": 1200, "thorough": 60000}
    rule = ("one definition (plain, annotated, tuple destructuring, function parameter, function local, class field reached through "
            "self in a method with self / fin self, class field reached through a mutable / fin receiver variable, fin class body "
            "field, fin class argument, or no definition at all), drawn fin or mutable, then one assignment (:=, +=, -=, *=) to it at "
            "one of 12 positions (8 inner positions for parameters, locals and self), for plain variables with 0-2 shadowing "
            "re-definitions in the same block or in a block that is closed before the assignment (which may flip mutability). "
            "Oracle: reject iff the definition visible at the assignment is fin, or the receiver / self is fin, or the name is "
            "undefined; otherwise accept. Non-trivial: every case; distinct by SHA-1 of the source; kind x position x shadowing "
            "histogram reported.")
    assumptions = ["for-loop variables are asserted in neither direction (they cannot be declared fin)",
                   "calling a mutating method on a fin receiver is not an assignment in the sense of the statement and is not judged"]
    strict = False

    def strategy(self, tier, switches):
        SWITCHES.update(s.split(".", 1)[1] for s in switches if "." in s)
        return st.one_of(_case(), _case(), _case(), scopegen.scope_case("assign", False))

    def summarize(self, case):
        if case.get("gen") == "scope":
            return {"gen": "scope", "expect": case["expect"], "fault": case["fault"], "program": case["src"][len(scopegen.HEADER):]}
        return {k: case[k] for k in ("kind", "position", "fin", "op", "shadowing", "expect")} | {"tail": case["src"][len(WORLD):]}

    def check(self, worker, case, stats):
        r = worker.transpile1(case["src"], False)
        oc = outcome(r)
        if oc not in ("ok", "err"):
            stats.inc("crash_left_to_C03")
            return None
        for k, v in list(EXCLUDED.items()):
            stats.inc("excluded_known:" + k, v)
        EXCLUDED.clear()
        if case.get("gen") == "scope":
            return self.check_scope(worker, case, stats, r, oc)
        stats.inc("kind:%s/%s" % (case["kind"], "fin" if case["fin"] else "mut"))
        stats.inc("position:" + case["position"])
        stats.inc("shadowing:%d" % case["shadowing"])
        stats.mark_nontrivial({"src": case["src"]}, sample=self.summarize(case), key=(case["kind"], case["fin"]))
        if oc == case["expect"]:
            if oc == "err" and not (r["err"] and all(isinstance(d, str) and d.strip() for d in r["err"])):
                return {"what": "rejection without diagnostics"}
            return None
        rr = worker.call({"op": "transpile_rep", "files": [[case["src"], None]], "dir": "", "annotate": False, "k": 10})
        if any(outcome(x) != oc for x in rr.get("results", [])):
            stats.inc("nondeterministic_left_to_C12")
            return None
        tail = case["src"][len(WORLD):]
        if case["expect"] == "err":
            return {"what": "assignment (%s) to a fin / undefined %s at position %s is accepted" % (case["op"], case["kind"],
                                                                                                  case["position"]), "tail": tail}
        return {"what": "assignment (%s) to a mutable %s at position %s is rejected" % (case["op"], case["kind"], case["position"]),
                "diagnostics": r["err"][:2], "tail": tail}

    SUBJECT = re.compile(r"mutab|[Uu]ndefined|not defined|unassigned|not assigned|final|immutable")

    def check_scope(self, worker, case, stats, r, oc):
        """ScopeGen cases: legal shadow-heavy program, optionally one planted illegal assignment."""
        fault = case["fault"]
        stats.inc("scope:%s" % (("fault/" + fault["kind"]) if fault else "legal"))
        for f in case["features"]:
            stats.inc("scope_feature:" + f)
        stats.mark_nontrivial({"src": case["src"]}, sample=self.summarize(case), key=("scope", fault["kind"] if fault else None))
        if oc == case["expect"]:
            if oc == "err" and not (r["err"] and all(isinstance(d, str) and d.strip() for d in r["err"])):
                return {"what": "rejection without diagnostics"}
            return None
        rr = worker.call({"op": "transpile_rep", "files": [[case["src"], None]], "dir": "", "annotate": False, "k": 10})
        if any(outcome(x) != oc for x in rr.get("results", [])):
            stats.inc("nondeterministic_left_to_C12")
            return None
        prog = case["src"][len(scopegen.HEADER):]
        if case["expect"] == "err":
            return {"what": "assignment to a fin / undefined target is accepted: %s %s (%s)" % (fault["name"], fault.get("op"),
                                                                                              fault["kind"]), "program": prog}
        # a legal program that is rejected: judged only when the diagnostics are about mutability or definedness; the
        # checker's inference gives up on some shadow-heavy programs for reasons that are not this property's
        if any(self.SUBJECT.search(d) for d in r["err"]):
            return {"what": "every assignment of this program has a mutable, defined target, yet it is rejected",
                    "diagnostics": r["err"][:2], "program": prog}
        stats.inc("scope:legal_rejected_for_another_reason")
        return None
