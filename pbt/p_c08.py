"""C08 — explicit error handling: raises must be declared or handled."""
from hypothesis import strategies as st

from pbt import pyoracle
from pbt.worker import outcome

SWITCHES = set()
EXCLUDED = {}


@st.composite
def forest(draw):
    n = draw(st.integers(2, 5))
    parent = {}
    depth = {}
    for i in range(n):
        name = "E%d" % i
        cands = ["Exception"] + [e for e in parent if depth[e] < 3]
        p = draw(st.sampled_from(cands))
        parent[name] = p
        depth[name] = 1 if p == "Exception" else depth[p] + 1
    return parent


def ancestors(cls, parent):
    out = [cls]
    while cls in parent:
        cls = parent[cls]
        out.append(cls)
    return out


class Gen:
    def __init__(self, draw, parent):
        self.draw = draw
        self.parent = parent
        self.excs = sorted(parent)
        self.n = 0
        self.sites = []      # (raised classes, handler stack) per site
        self.budget = 6

    def fresh(self, p):
        self.n += 1
        return "%s%d" % (p, self.n)

    def pick(self, seq):
        seq = list(seq)
        return seq[self.draw(st.integers(0, len(seq) - 1))]

    def site(self, stack, lines, ind):
        """a raising site: call of callee (may raise its declared set) or a raise statement"""
        p = "    " * ind
        if self.draw(st.integers(0, 9)) < 7:
            self.sites.append((list(self.callee_raises), list(stack), "call"))
            form = self.pick(["stmt", "init", "print"])
            if form == "stmt":
                lines.append(p + "callee(x)")
                # never the last statement of a block: an Int-valued tail makes branches / arms disagree in type,
                # which is a typing matter outside this property
                lines.append(p + "print(\"after call\")")
            elif form == "init":
                lines.append(p + "def %s := callee(x)" % self.fresh("v"))
            else:
                lines.append(p + "print(callee(x) + 1)")
        else:
            cls = self.pick(self.excs)
            self.sites.append(([cls], list(stack), "raise"))
            lines.append(p + "if x = 77 then raise %s(\"direct\")" % cls)

    def node(self, stack, lines, ind, depth):
        self.budget -= 1
        p = "    " * ind
        kind = self.pick(["site", "site", "if", "loop", "match", "handle", "handle", "seq"]) if depth > 0 and self.budget > 0 else "site"
        if kind == "site":
            self.site(stack, lines, ind)
        elif kind == "if":
            lines.append(p + "if x > 0 then")
            self.node(stack, lines, ind + 1, depth - 1)
            lines.append(p + "    print(\"end then\")")
            if self.draw(st.booleans()):
                lines.append(p + "else")
                self.node(stack, lines, ind + 1, depth - 1)
                lines.append(p + "    print(\"end else\")")
        elif kind == "loop":
            if self.draw(st.booleans()):
                lines.append(p + "for %s in 0 .. 2 do" % self.fresh("i"))
            else:
                w = self.fresh("w")
                lines.append(p + "def %s := 1" % w)
                lines.append(p + "while %s > 0 do" % w)
                lines.append(p + "    %s := %s - 1" % (w, w))
            self.node(stack, lines, ind + 1, depth - 1)
        elif kind == "match":
            # every block ends in a print: a value-producing tail would make arms / branches disagree in type,
            # which is a typing matter outside this property
            lines.append(p + "match x")
            lines.append(p + "    1 =>")
            self.node(stack, lines, ind + 2, depth - 1)
            lines.append(p + "        print(\"end arm 1\")")
            lines.append(p + "    _ =>")
            self.node(stack, lines, ind + 2, depth - 1)
            lines.append(p + "        print(\"end arm _\")")
        elif kind == "seq":
            self.node(stack, lines, ind, depth - 1)
            self.node(stack, lines, ind, depth - 1)
        else:
            # handle: the guarded call sees the arms' classes, the arm bodies do not
            k = self.draw(st.integers(1, 2))
            classes = []
            for _ in range(k):
                c = self.pick(self.excs + ["Exception"])
                if c not in classes:
                    classes.append(c)
            self.sites.append((list(self.callee_raises), list(stack) + [classes], "guarded_call"))
            form = self.pick(["stmt", "init"])
            if form == "stmt":
                lines.append(p + "callee(x) handle")
            else:
                lines.append(p + "def %s := callee(x) handle" % self.fresh("h"))
            for c in classes:
                lines.append(p + "    %s: %s =>" % (self.fresh("err"), c))
                if depth > 1 and self.budget > 0 and self.draw(st.integers(0, 9)) < 4:
                    self.node(stack, lines, ind + 2, depth - 2)   # inside an arm: own classes no longer apply
                    if form == "stmt":
                        # arms of a statement handle end in a statement (an Int-valued tail would make the arms'
                        # types disagree, which is a typing matter outside this property)
                        lines.append(p + "        print(\"end arm\")")
                else:
                    lines.append(p + "        print(\"arm %s\")" % c)
                if form == "init":
                    lines.append(p + "        %d" % self.draw(st.integers(0, 9)))
            if form == "stmt":
                lines.append(p + "print(\"after handle\")")  # a handle statement is never the tail of a block (typing)
            if self.draw(st.integers(0, 9)) < 4 and self.budget > 0:
                self.node(stack, lines, ind, depth - 1)       # after the handle: restoration

    def covered(self, raised, stack, declared):
        for r in raised:
            anc = ancestors(r, self.parent)
            ok = any(a in declared for a in anc) or any(a in cls for cls in stack for a in anc)
            if not ok:
                return False
        return True


@st.composite
def _case(draw):
    parent = draw(forest())
    g = Gen(draw, parent)
    excs = g.excs
    # callee declares 1-2 classes
    g.callee_raises = sorted(set(draw(st.lists(st.sampled_from(excs), min_size=1, max_size=2))))
    in_method = draw(st.booleans())
    lines = []
    g.node([], lines, 2 if in_method else 1, 3)
    # the enclosing function's declaration: drawn so that about half of the cases are fully covered
    mode = draw(st.sampled_from(["exact", "exact", "none", "random", "ancestor", "non_exception"]))
    needed = set()
    for raised, stack, _k in g.sites:
        for r in raised:
            anc = ancestors(r, parent)
            if not any(a in cls for cls in stack for a in anc):
                needed.add(r)
    if mode == "exact":
        declared = sorted(needed)
    elif mode == "none":
        declared = []
    elif mode == "ancestor":
        declared = sorted(set(draw(st.sampled_from(ancestors(r, parent)[:-1] or [r])) for r in needed))
    elif mode == "non_exception":
        declared = sorted(needed) + ["NotExc"]
    else:
        declared = sorted(set(draw(st.lists(st.sampled_from(excs), max_size=3))))
    ok = all(g.covered(raised, stack, declared) for raised, stack, _k in g.sites) and "NotExc" not in declared
    src = []
    for e in excs:
        src.append("class %s(msg: Str): %s(msg)" % (e, parent[e]))
    src.append("class NotExc(def m: Str)")
    src.append("def callee(x: Int) -> Int raise [%s] =>" % ", ".join(g.callee_raises))
    for i, r in enumerate(g.callee_raises):
        src.append("    if x = %d then raise %s(\"c%d\")" % (i + 1, r, i))
    src.append("    x")
    decl = " raise [%s]" % ", ".join(declared) if declared else ""
    if in_method:
        src.append("class Host(def hv: Int)")
        src.append("    def encl(self, x: Int)%s =>" % decl)
    else:
        src.append("def encl(x: Int)%s =>" % decl)
    src += lines
    kinds = sorted(set(k for _r, _s, k in g.sites))
    return {"src": "\n".join(src) + "\n", "declared": declared, "callee_raises": g.callee_raises, "parent": parent,
            "sites": len(g.sites), "site_kinds": kinds, "mode": mode, "in_method": in_method, "expect": "ok" if ok else "err"}


class C08:
    id = "C08"
    cases = {"quick": 2000, "thorough": 60000}
    rule = ("an exception forest of 2-5 classes (depth <=3 under Exception) plus one non-exception class; a callee declaring 1-2 of "
            "them; an enclosing function or method whose body is a generated tree of raising sites (call of the callee as statement, "
            "initialiser or inside print; raise statement) nested in if/else, for, while, match arms, sequences and handles (guarded "
            "call with 1-2 arms naming a class, an ancestor or Exception; sites inside arm bodies, where the handle's own classes no "
            "longer apply; sites after a handle) and whose raise declaration is drawn exact / empty / ancestors / random / with a "
            "non-exception class. Oracle: the model computes for every site whether every class it may raise has itself or an "
            "ancestor in an enclosing guard or in the declaration; accepted iff all sites are covered and every declared class descends "
            "from Exception. Non-trivial: >=1 raising site inside the function (always); distinct by SHA-1 of the source; mode x "
            "site-kind histogram reported.")
    assumptions = ["callee methods are outside the statement (it says 'function'); methods are generated as enclosing bodies only",
                   "a verdict that differs from the expectation is re-run 10x; an unstable verdict is C12's finding"]
    strict = False

    def strategy(self, tier, switches):
        SWITCHES.update(s.split(".", 1)[1] for s in switches if "." in s)
        return _case()

    def summarize(self, case):
        return {k: case[k] for k in ("declared", "callee_raises", "parent", "mode", "expect")} | {"src": case["src"][:900]}

    def check(self, worker, case, stats):
        r = worker.transpile1(case["src"], False)
        oc = outcome(r)
        if oc not in ("ok", "err"):
            stats.inc("crash_left_to_C03")
            return None
        stats.inc("mode:%s/%s" % (case["mode"], case["expect"]))
        for k in case["site_kinds"]:
            stats.inc("site:" + k)
        stats.inc("sites:%d" % min(case["sites"], 6))
        stats.inc("enclosing:" + ("method" if case["in_method"] else "function"))
        stats.mark_nontrivial({"src": case["src"]}, sample=self.summarize(case), key=(case["mode"], case["expect"]))
        if oc == case["expect"]:
            if oc == "err" and not (r["err"] and all(isinstance(d, str) and d.strip() for d in r["err"])):
                return {"what": "rejection without diagnostics"}
            return None
        rr = worker.call({"op": "transpile_rep", "files": [[case["src"], None]], "dir": "", "annotate": False, "k": 10})
        if any(outcome(x) != oc for x in rr.get("results", [])):
            stats.inc("nondeterministic_left_to_C12")
            return None
        if case["expect"] == "err":
            return {"what": "a raise that is neither handled nor declared is accepted (declared %s, callee raises %s)"
                            % (case["declared"], case["callee_raises"]), "source": case["src"]}
        return {"what": "all raises are handled or declared (declared %s, callee raises %s) but the program is rejected"
                        % (case["declared"], case["callee_raises"]), "diagnostics": r["err"][:2], "source": case["src"]}
