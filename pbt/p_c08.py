"""C08 — explicit error handling: raises must be declared or handled."""
from hypothesis import strategies as st

from pbt import pyoracle
from pbt.worker import outcome

SWITCHES = set()
EXCLUDED = {}


@st.composite
def forest(draw):
    n = draw(st.integers(2, 5))
    parent = {}
    depth = {}
    for i in range(n):
        name = "E%d" % i
        cands = ["Exception"] + [e for e in parent if depth[e] < 3]
        p = draw(st.sampled_from(cands))
        parent[name] = p
        depth[name] = 1 if p == "Exception" else depth[p] + 1
    return parent


def ancestors(cls, parent):
    out = [cls]
    while cls in parent:
        cls = parent[cls]
        out.append(cls)
    return out


class Raised(Exception):
    def __init__(self, cls):
        Exception.__init__(self, cls)
        self.cls = cls


XS = (0, 1, 2, 3, 77, -4)


class Gen:
    def __init__(self, draw, parent):
        self.draw = draw
        self.parent = parent
        self.excs = sorted(parent)
        self.n = 0
        self.sites = []      # (raised classes, handler stack) per site
        self.budget = 6

    def fresh(self, p):
        self.n += 1
        return "%s%d" % (p, self.n)

    def pick(self, seq):
        seq = list(seq)
        return seq[self.draw(st.integers(0, len(seq) - 1))]

    def site(self, stack, lines, ind):
        """a raising site: call of callee (may raise its declared set) or a raise statement"""
        p = "    " * ind
        if self.draw(st.integers(0, 9)) < 7:
            self.sites.append((list(self.callee_raises), list(stack), "call"))
            form = self.pick(["stmt", "init", "print"])
            if form == "stmt":
                lines.append(p + "callee(x)")
                # never the last statement of a block: an Int-valued tail makes branches / arms disagree in type,
                # which is a typing matter outside this property
                lines.append(p + "print(\"after call\")")
            elif form == "init":
                lines.append(p + "def %s := callee(x)" % self.fresh("v"))
            else:
                lines.append(p + "print(callee(x) + 1)")
            return ("call", form)
        cls = self.pick(self.excs)
        self.sites.append(([cls], list(stack), "raise"))
        lines.append(p + "if x = 77 then raise %s(\"direct\")" % cls)
        return ("raise", cls)

    def node(self, stack, lines, ind, depth):
        """appends the text of one construct to `lines` and returns its tree (what run() interprets)"""
        self.budget -= 1
        p = "    " * ind
        kind = self.pick(["site", "site", "if", "loop", "match", "handle", "handle", "seq"]) if depth > 0 and self.budget > 0 else "site"
        if kind == "site":
            return self.site(stack, lines, ind)
        if kind == "if":
            lines.append(p + "if x > 0 then")
            a = self.node(stack, lines, ind + 1, depth - 1)
            lines.append(p + "    print(\"end then\")")
            b = None
            if self.draw(st.booleans()):
                lines.append(p + "else")
                b = self.node(stack, lines, ind + 1, depth - 1)
                lines.append(p + "    print(\"end else\")")
            return ("if", a, b)
        if kind == "loop":
            if self.draw(st.booleans()):
                lines.append(p + "for %s in 0 .. 2 do" % self.fresh("i"))
                times = 2
            else:
                w = self.fresh("w")
                lines.append(p + "def %s := 1" % w)
                lines.append(p + "while %s > 0 do" % w)
                lines.append(p + "    %s := %s - 1" % (w, w))
                times = 1
            return ("loop", times, self.node(stack, lines, ind + 1, depth - 1))
        if kind == "match":
            # every block ends in a print: a value-producing tail would make arms / branches disagree in type,
            # which is a typing matter outside this property
            lines.append(p + "match x")
            lines.append(p + "    1 =>")
            a = self.node(stack, lines, ind + 2, depth - 1)
            lines.append(p + "        print(\"end arm 1\")")
            lines.append(p + "    _ =>")
            b = self.node(stack, lines, ind + 2, depth - 1)
            lines.append(p + "        print(\"end arm _\")")
            return ("match", a, b)
        if kind == "seq":
            a = self.node(stack, lines, ind, depth - 1)
            b = self.node(stack, lines, ind, depth - 1)
            return ("seq", a, b)
        # handle: the guarded call sees the arms' classes, the arm bodies do not
        k = self.draw(st.integers(1, 3))
        classes = []
        for _ in range(k):
            c = self.pick(self.excs + ["Exception"])
            if c not in classes:
                classes.append(c)
        self.sites.append((list(self.callee_raises), list(stack) + [classes], "guarded_call"))
        form = self.pick(["stmt", "init", "init_annotated"])
        hname = self.fresh("h")
        if form == "stmt":
            lines.append(p + "callee(x) handle")
        elif form == "init":
            lines.append(p + "def %s := callee(x) handle" % hname)
        else:
            lines.append(p + "def %s: Int := callee(x) handle" % hname)
        arms = []
        for c in classes:
            lines.append(p + "    %s: %s =>" % (self.fresh("err"), c))
            body = None
            if depth > 1 and self.budget > 0 and self.draw(st.integers(0, 9)) < 4:
                body = self.node(stack, lines, ind + 2, depth - 2)   # inside an arm: own classes no longer apply
                if form == "stmt":
                    # arms of a statement handle end in a statement (an Int-valued tail would make the arms'
                    # types disagree, which is a typing matter outside this property)
                    lines.append(p + "        print(\"end arm\")")
            else:
                lines.append(p + "        print(\"arm %s\")" % c)
            value = None
            if form != "stmt":
                value = self.draw(st.integers(0, 9))
                lines.append(p + "        %d" % value)
            arms.append((c, body, value))
        if form == "stmt":
            lines.append(p + "print(\"after handle\")")  # a handle statement is never the tail of a block (typing)
        # (the value a handle definition produced is not read afterwards: in an else branch or a later match arm the checker
        # cannot type such a read - open finding F73 - and which arm ran is visible from what the arms print)
        after = None
        if self.draw(st.integers(0, 9)) < 4 and self.budget > 0:
            after = self.node(stack, lines, ind, depth - 1)       # after the handle: restoration
        return ("handle", form, arms, after)

    # -- reference: what encl(x) prints and which class leaves it ---------------------------------------------
    def callee(self, x):
        for i, r in enumerate(self.callee_raises):
            if x == i + 1:
                raise Raised(r)
        return x

    def run(self, t, x, out):
        k = t[0]
        if k == "call":
            v = self.callee(x)
            if t[1] == "stmt":
                out.append("after call")
            elif t[1] == "print":
                out.append(str(v + 1))
        elif k == "raise":
            if x == 77:
                raise Raised(t[1])
        elif k == "if":
            if x > 0:
                self.run(t[1], x, out)
                out.append("end then")
            elif t[2] is not None:
                self.run(t[2], x, out)
                out.append("end else")
        elif k == "loop":
            for _ in range(t[1]):
                self.run(t[2], x, out)
        elif k == "match":
            if x == 1:
                self.run(t[1], x, out)
                out.append("end arm 1")
            else:
                self.run(t[2], x, out)
                out.append("end arm _")
        elif k == "seq":
            self.run(t[1], x, out)
            self.run(t[2], x, out)
        else:
            _, form, arms, after = t
            try:
                v = self.callee(x)
            except Raised as e:
                # the first arm that names the class or an ancestor of it; none: the exception goes on
                for c, body, value in arms:
                    if c in ancestors(e.cls, self.parent) or c == "Exception":
                        if body is None:
                            out.append("arm %s" % c)
                        else:
                            self.run(body, x, out)
                            if form == "stmt":
                                out.append("end arm")
                        v = value
                        break
                else:
                    raise
            if form == "stmt":
                out.append("after handle")
            if after is not None:
                self.run(after, x, out)

    def expected_runs(self, tree, xs):
        res = []
        for x in xs:
            out = []
            try:
                self.run(tree, x, out)
                out.append("@returned")
            except Raised as e:
                out.append("@escaped " + e.cls)
            res.append((x, out))
        return res

    def covered(self, raised, stack, declared):
        for r in raised:
            anc = ancestors(r, self.parent)
            ok = any(a in declared for a in anc) or any(a in cls for cls in stack for a in anc)
            if not ok:
                return False
        return True


@st.composite
def _case(draw):
    parent = draw(forest())
    g = Gen(draw, parent)
    excs = g.excs
    # callee declares 1-2 classes
    g.callee_raises = sorted(set(draw(st.lists(st.sampled_from(excs), min_size=1, max_size=2))))
    in_method = draw(st.booleans())
    lines = []
    tree = g.node([], lines, 2 if in_method else 1, 3)
    # the enclosing function's declaration: drawn so that about half of the cases are fully covered
    mode = draw(st.sampled_from(["exact", "exact", "none", "random", "ancestor", "non_exception"]))
    needed = set()
    for raised, stack, _k in g.sites:
        for r in raised:
            anc = ancestors(r, parent)
            if not any(a in cls for cls in stack for a in anc):
                needed.add(r)
    if mode == "exact":
        declared = sorted(needed)
    elif mode == "none":
        declared = []
    elif mode == "ancestor":
        declared = sorted(set(draw(st.sampled_from(ancestors(r, parent)[:-1] or [r])) for r in needed))
    elif mode == "non_exception":
        declared = sorted(needed) + ["NotExc"]
    else:
        declared = sorted(set(draw(st.lists(st.sampled_from(excs), max_size=3))))
    ok = all(g.covered(raised, stack, declared) for raised, stack, _k in g.sites) and "NotExc" not in declared
    src = []
    for e in excs:
        src.append("class %s(msg: Str): %s(msg)" % (e, parent[e]))
    src.append("class NotExc(def m: Str)")
    src.append("def callee(x: Int) -> Int raise [%s] =>" % ", ".join(g.callee_raises))
    for i, r in enumerate(g.callee_raises):
        src.append("    if x = %d then raise %s(\"c%d\")" % (i + 1, r, i))
    src.append("    x")
    decl = " raise [%s]" % ", ".join(declared) if declared else ""
    # signatures without a body (a forward declaration, an abstract method) declare raises of their own: what they list says
    # nothing about the functions that follow them
    sig = draw(st.integers(0, 9)) < 3
    sig_raises = sorted(set(draw(st.lists(st.sampled_from(excs), min_size=1, max_size=3)))) if sig else []
    if sig and not in_method:
        src.append("def ext(y: Int) -> Int raise [%s]" % ", ".join(sig_raises))
    if in_method:
        src.append("class Host(def hv: Int)")
        if sig:
            src.append("    def sig(self, y: Int) -> Int raise [%s]" % ", ".join(sig_raises))
        src.append("    def encl(self, x: Int)%s =>" % decl)
    else:
        src.append("def encl(x: Int)%s =>" % decl)
    src += lines
    kinds = sorted(set(k for _r, _s, k in g.sites))
    runs = g.expected_runs(tree, XS) if ok else []
    return {"src": "\n".join(src) + "\n", "declared": declared, "callee_raises": g.callee_raises, "parent": parent,
            "sites": len(g.sites), "site_kinds": kinds, "mode": mode, "in_method": in_method, "expect": "ok" if ok else "err",
            "signature_before": sig_raises, "runs": [[x, out] for x, out in runs]}


class C08:
    id = "C08"
    cases = {"quick": 2000, "thorough": 60000}
    rule = ("an exception forest of 2-5 classes (depth <=3 under Exception) plus one non-exception class; a callee declaring 1-2 of "
            "them; an enclosing function or method whose body is a generated tree of raising sites (call of the callee as statement, "
            "initialiser or inside print; raise statement) nested in if/else, for, while, match arms, sequences and handles (guarded "
            "call with 1-3 arms naming a class, an ancestor or Exception in any order, as statement / definition / annotated definition; sites inside arm bodies, where the handle's own classes no "
            "longer apply; sites after a handle) and whose raise declaration is drawn exact / empty / ancestors / random / with a "
            "non-exception class. Oracle: the model computes for every site whether every class it may raise has itself or an "
            "ancestor in an enclosing guard or in the declaration; accepted iff all sites are covered and every declared class descends "
            "from Exception; 30-50% of the programs carry a signature without body that declares raises before the function. Run-time stage: "
            "every accepted conforming program is executed with a driver that calls the function for six arguments; the printed trace and "
            "the class that leaves the function are compared with the generator's reference interpreter (catches exactly the listed "
            "classes). Non-trivial: >=1 raising site inside the function (always); distinct by SHA-1 of the source; mode x "
            "site-kind histogram reported.")
    assumptions = ["callee methods are outside the statement (it says 'function'); methods are generated as enclosing bodies only",
                   "a verdict that differs from the expectation is re-run 10x; an unstable verdict is C12's finding"]
    strict = False

    def strategy(self, tier, switches):
        SWITCHES.update(s.split(".", 1)[1] for s in switches if "." in s)
        return _case()

    def run_time(self, py, case, stats):
        """the emitted Python catches exactly the listed classes: encl(x) is called for six arguments (no raise, each class of the
        callee, the direct raise) and what it prints and which class leaves it are compared with the reference"""
        call = "Host(0).encl(%d)" if case["in_method"] else "encl(%d)"
        driver = ["", ""]
        for x, _out in case["runs"]:
            driver += ["print(\"@x %d\")" % x, "try:", "    " + call % x, "    print(\"@returned\")", "except BaseException as zz_e:",
                       "    print(\"@escaped \" + type(zz_e).__name__)"]
        got = pyoracle.run_module(py + "\n".join(driver) + "\n", 40000)
        if got["compile_error"]:
            stats.inc("invalid_python_left_to_C02")
            return None
        if got["budget"] or got["exc"]:
            stats.inc("run_time:not_judged")
            return None
        want = []
        for x, out in case["runs"]:
            want += ["@x %d" % x] + out
        stats.inc("run_time:executed")
        if any(o[-1].startswith("@escaped") for _x, o in case["runs"]):
            stats.inc("run_time:declared_class_leaves_the_function")
        if any(l.startswith("arm ") or l == "end arm" for _x, o in case["runs"] for l in o):
            stats.inc("run_time:arm_taken")
        if got["out"] != want:
            n = next((i for i, (a, b) in enumerate(zip(got["out"], want)) if a != b), min(len(got["out"]), len(want)))
            return {"what": "the emitted Python does not catch exactly the listed classes: output line %d is %r, the reference "
                            "says %r" % (n, got["out"][n:n + 1], want[n:n + 1]), "expected": want, "got": got["out"],
                    "python": py, "source": case["src"]}
        return None

    def summarize(self, case):
        return {k: case[k] for k in ("declared", "callee_raises", "parent", "mode", "expect")} | {"src": case["src"][:900]}

    def check(self, worker, case, stats):
        r = worker.transpile1(case["src"], False)
        oc = outcome(r)
        if oc not in ("ok", "err"):
            stats.inc("crash_left_to_C03")
            return None
        stats.inc("mode:%s/%s" % (case["mode"], case["expect"]))
        for k in case["site_kinds"]:
            stats.inc("site:" + k)
        stats.inc("sites:%d" % min(case["sites"], 6))
        stats.inc("enclosing:" + ("method" if case["in_method"] else "function"))
        stats.mark_nontrivial({"src": case["src"]}, sample=self.summarize(case), key=(case["mode"], case["expect"]))
        if case.get("signature_before"):
            stats.inc("signature_without_body_before")
        if oc == case["expect"]:
            if oc == "err" and not (r["err"] and all(isinstance(d, str) and d.strip() for d in r["err"])):
                return {"what": "rejection without diagnostics"}
            if oc == "ok" and case.get("runs"):
                return self.run_time(r["ok"][0], case, stats)
            return None
        rr = worker.call({"op": "transpile_rep", "files": [[case["src"], None]], "dir": "", "annotate": False, "k": 10})
        if any(outcome(x) != oc for x in rr.get("results", [])):
            stats.inc("nondeterministic_left_to_C12")
            return None
        if case["expect"] == "err":
            return {"what": "a raise that is neither handled nor declared is accepted (declared %s, callee raises %s)"
                            % (case["declared"], case["callee_raises"]), "source": case["src"]}
        return {"what": "all raises are handled or declared (declared %s, callee raises %s) but the program is rejected"
                        % (case["declared"], case["callee_raises"]), "diagnostics": r["err"][:2], "source": case["src"]}
