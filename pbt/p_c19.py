"""C19 — diagnostics are well-formed and point into the offending file and line."""
import re

from hypothesis import strategies as st

from pbt import corpus, gen, model, mutate
from pbt.worker import outcome

HEADER = re.compile(r"^\s*(?:──→|-->|->)\s*(.*?)(?::(\d+):(\d+))?\s*$")
QUOTED = re.compile(r"^\s*(\d+) \| (.*)$")
QUOTED_LEX = re.compile(r"^\s*(\d+)\s+\|- (.*)$")
CARET = re.compile(r"^\s*\^+\s*$")

FAULT_KINDS = ["illegal_char", "stray_paren", "bad_literal", "undefined", "fin_assign", "bad_argument", "bad_operand",
               "bad_return_annotation", "after_escaped_string"]
# text with line breaks inside string literals and doc-strings, placed before the fault: every later line number depends on how
# the lexer counts the lines of these tokens
PRELUDES = ['"""\nmodule doc\n"""\n', '"""module doc"""\n', '"""\n\n"""\n', '"""\nfirst\nsecond\n"""\n',
            'def pre_s := "line one\nline two"\n', 'def pre_t := "ends with a line break\n"\n', 'def pre_u := "\n"\n',
            'class PreDoc\n    """\n    class doc\n    """\n    def pd: Int := 1\n',
            'def pre_f() -> Int =>\n    """\n    fun doc\n    """\n    1\n', 'def pre_e := ""\ndef pre_g := "a\n\nb"\n',
            '# comment\n\n"""doc\n"""\n']


def statement_lines(lines):
    """Indices where a complete statement can be inserted *before* the line: the line starts a simple statement and
    the previous code line has the same indentation and is itself a complete one-line statement."""
    out = []
    starters = ("print(", "def ")
    prev = None
    inside = False
    for i, l in enumerate(lines):
        q = len(re.findall(r'(?<!\\)"', l))
        code = l.strip() and not l.lstrip().startswith("#")
        if code and not inside and q % 2 == 0:
            ind = len(l) - len(l.lstrip(" "))
            s = l.strip()
            if s.startswith(starters) and not s.endswith(("=>", "then", "do", "handle", "else")) and " => " not in s:
                if prev is not None and prev[0] == ind and prev[1]:
                    out.append(i)
                elif prev is None and ind == 0:
                    out.append(i)
            simple = s.startswith(starters + ("v", "o", "h", "w")) and not s.endswith(("=>", "then", "do", "handle", "else")) \
                and not s.startswith(("def fn", "def m")) and ":=" in s or s.startswith("print(")
            prev = (ind, bool(simple) and q % 2 == 0)
        if q % 2 == 1:
            inside = not inside
    return out


def inject(draw, text):
    """-> (new text, 1-based line L of the fault, kind) or None"""
    lines = text.split("\n")
    spots = statement_lines(lines)
    if not spots:
        return None
    i = spots[draw(st.integers(0, len(spots) - 1))]
    ind = " " * (len(lines[i]) - len(lines[i].lstrip(" ")))
    kind = draw(st.sampled_from(FAULT_KINDS))
    if kind == "illegal_char":
        ch = draw(st.sampled_from(["!", "$", "~", "`", "@", "\t"]))
        l = lines[i]
        # not inside a string or comment
        cut = len(l) if '"' not in l and "#" not in l else min([p for p in (l.find('"'), l.find("#")) if p >= 0])
        pos = draw(st.integers(len(ind), max(len(ind), cut)))
        lines[i] = l[:pos] + ch + l[pos:]
        return "\n".join(lines), i + 1, kind
    if kind == "stray_paren":
        if "#" in lines[i]:
            return None
        lines[i] = lines[i] + draw(st.sampled_from([" )", " ]", " }", " then", " :=", " =>"]))
        return "\n".join(lines), i + 1, kind
    new = {
        "bad_literal": ['def zq9: Int := "zq9text"', "def zq9: Str := 9123", "def zq9: Bool := 9124"],
        "undefined": ["print(undefined_name_zq9)", "def zq9 := undefined_name_zq9 + 1"],
        "bad_argument": ['def zq9 := Int("9125", 9126, 9127)', "def zq9: Int := Int()"],
        # literals that occur nowhere else in the file (open finding F37: equal expressions share one position)
        "bad_operand": ['def zq9 := 9128 + "zq9a"', "def zq9 := 9129 < \"zq9b\""],
    }
    if kind == "after_escaped_string":
        # the faulty token stands behind a string literal full of escape sequences, at the end of its line: a column that
        # is computed from anything but the source text of the literal leaves the line
        esc = draw(st.sampled_from(['"\\t|\\t\\n"', '"a\\\\b\\\\c\\\\d"', '"\\n\\n\\n\\n\\n\\n"', '"q\\"q\\"q\\"q"']))
        form = draw(st.sampled_from(["def zs9 := %s $", "def zs9 := %s )", "print(%s + undefined_name_zs9)", "def zs9 := %s !",
                                     "print(%s, undefined_name_zs9)"]))
        lines[i:i] = [ind + form % esc]
        return "\n".join(lines), i + 1, kind
    if kind == "fin_assign":
        lines[i:i] = [ind + "def fin zq8 := 1", ind + "zq8 := 2"]
        return "\n".join(lines), i + 2, kind
    if kind == "bad_return_annotation":
        # the fault is the annotation on the signature line: it disagrees with what the body returns two or three lines below
        if ind:
            return None  # nested function definitions are not part of the language
        ret, val = draw(st.sampled_from([("Str", "zp + 9130"), ("Int", '"zq9c"'), ("Bool", "zp + 9131"), ("Str", "9132")]))
        block = [ind + "def zq7(zp: Int) -> %s =>" % ret]
        if draw(st.booleans()):
            block.append(ind + "    # the body starts here")
        block += [ind + "    print(zp)", ind + "    return %s" % val]
        lines[i:i] = block
        return "\n".join(lines), i + 1, kind
    lines[i:i] = [ind + draw(st.sampled_from(new[kind]))]
    return "\n".join(lines), i + 1, kind


@st.composite
def _case(draw, seeds):
    which = draw(st.sampled_from(["core", "core", "seed", "mutated"]))
    if which == "mutated":
        m = draw(mutate.mutated(seeds, max_mutations=2, max_len=2048, max_lines=200))
        return {"gen": "mutated", "files": [[m["text"], "src/m.mamba"]], "dir": "src", "fault": None}
    if which == "core":
        base = model.render_program(draw(gen.programs()))
    else:
        base = seeds[draw(st.integers(0, len(seeds) - 1))]
    if len(base) > 3000:
        base = "def a := 1\nprint(a)\ndef b := a + 1\nprint(b)\n"
    if draw(st.integers(0, 99)) < 40:
        base = draw(st.sampled_from(PRELUDES)) + base
    inj = inject(draw, base)
    if inj is None:
        return {"gen": which, "files": [[base, "src/a.mamba"]], "dir": "src", "fault": None, "base": base}
    text, line, kind = inj
    nfiles = draw(st.sampled_from([1, 1, 2, 3]))
    crlf = draw(st.integers(0, 4)) == 0
    if crlf:
        # the same file with CRLF line ends: line k is still line k
        text = text.replace("\r\n", "\n").replace("\n", "\r\n")
    files = [[text, "src/faulty.mamba"]]
    others = ["def good1 := 1\nprint(good1)\n", "class Good2(def g2: Int)\ndef og2 := Good2(2)\nprint(og2.g2)\n"]
    for k in range(nfiles - 1):
        files.insert(draw(st.integers(0, len(files))), [others[k], "src/sub/ok%d.mamba" % k])
    return {"gen": which, "files": files, "dir": "src", "fault": {"line": line, "kind": kind, "path": "src/faulty.mamba"},
            "base": base, "crlf": crlf}


CATALOGUE = [
    ("ctx_class_args_and_init", "class A(x: Int)\n    def init(self) => pass\n"),
    ("ctx_duplicate_parent", "class A\nclass B: A, A\n"),
    ("ctx_untyped_argument", "def f(x) => x\n"),
    ("ctx_untyped_class_argument", "class A(x)\n"),
    ("ctx_cyclic_inheritance", "class A: B\nclass B: A\n"),
    ("ctx_alias_without_import", "import a as b, c\n"),
    ("lex_first_char", "!\n"),
    ("lex_last_line_no_newline", "def x := 1\ndef y := $"),
    ("parse_eof", "def x := (1 +"),
    ("parse_after_blank_lines", "def x := 1\n\n\n\n)\n"),
    ("type_last_line", "def x := 1\ndef y: Str := x"),
    ("type_in_interpolation", "def a := 1\ndef s := \"abc {a + nope} def\"\n"),
    ("type_in_multiline_string", "def a := 1\ndef s := \"x\n  {a + nope}\"\n"),
    ("type_wide_chars_before", "def s := \"ééééééé\"\ndef x: Int := s\n"),
    ("type_emoji_line", "def s := \"🐍🐍🐍\" + 1\n"),
    ("empty_tuple_def", "def () := 3\n"),
    ("py_keyword", "def lambda := 3\n"),
    ("vararg_default", "def f(vararg a: Int := 3) => pass\n"),
    ("match_operand", "def a := 7\ndef r: Int := 1 + match a\n    7 => 1\n    _ => 2\n"),
    ("unterminated_string", "def x := 1\ndef s := \"abc\n"),
]


class C19:
    id = "C19"
    cases = {"quick": 150, "thorough": 10000}
    rule = ("rejected inputs: accepted base programs (CoreGen, repository samples) with one fault injected on a known line L "
            "(illegal character, stray token at the end of L, wrongly typed literal initialiser, undefined name, assignment to a "
            "fin variable, wrong arguments, ill-typed operand, a return annotation on a signature line that disagrees with the value "
            "returned lines below, a faulty token behind a string literal full of escape sequences at the end of its line) inside top-level "
            "and nested blocks, a fifth of the faulty files with CRLF line ends, in 40% of the cases after a prelude with line breaks inside "
            "string literals / doc-strings (every later line number depends on how those tokens are counted), alone or as one file of a "
            "2-3 file project; 2-mutation variants of samples; a fixed catalogue (errors raised while the context is built, "
            "errors at first/last character, in interpolations, after wide characters). Oracle on the rendered diagnostics: "
            "non-empty list of non-empty strings; every diagnostic has a location header naming the display path of an input "
            "file (the faulty one when a fault was injected); 1 <= line <= lines+1 and 1 <= column <= len(line)+2; every quoted "
            "'n | text' is verbatim line n of that file; with an injected fault some reported position is on line L. "
            "Non-trivial: rejected by parser or checker (not at the first character); distinct by SHA-1 of the files.")
    assumptions = [
        "location headers are parsed leniently (any arrow, then path[:line:col]); message wording is never inspected",
        "a position one past the last line / last column is legal (end-of-input diagnostics)",
        "fault kinds are restricted to those whose line is unambiguous; statements are inserted only between two complete "
        "one-line statements of equal indentation",
    ]
    strict = False

    def __init__(self):
        self._seeds = None

    def seeds(self):
        if self._seeds is None:
            self._seeds = [t for _, t in corpus.own_seeds() + corpus.repo_samples("valid")]
        return self._seeds

    def strategy(self, tier, switches):
        return _case(self.seeds())

    def fixed_cases(self, tier, switches):
        for name, text in CATALOGUE:
            yield {"gen": "catalogue", "name": name, "files": [[text, "src/c.mamba"]], "dir": "src", "fault": None}
            yield {"gen": "catalogue", "name": name + "+2files",
                   "files": [["def good1 := 1\nprint(good1)\n", "src/ok.mamba"], [text, "src/sub/c.mamba"]], "dir": "src",
                   "fault": None, "only_path": "src/sub/c.mamba"}
        for name, text in corpus.repo_samples("invalid"):
            yield {"gen": "repo-invalid", "name": name, "files": [[text, "src/" + name.split("/")[-1]]], "dir": "src",
                   "fault": None}

    def summarize(self, case):
        return {"gen": case.get("gen"), "fault": case.get("fault"), "files": [[f[0][:500], f[1]] for f in case["files"]]}

    def check(self, worker, case, stats):
        files = case["files"]
        stats.inc("gen:" + case.get("gen", "?"))
        fault = case.get("fault")
        if fault is not None and case.get("base") is not None:
            # the base must be accepted (and stably so), otherwise line L means nothing
            rr = worker.call({"op": "transpile_rep", "files": [[case["base"], "src/faulty.mamba"]], "dir": "src",
                              "annotate": False, "k": 3})
            if not rr.get("results") or any(outcome(x) != "ok" for x in rr["results"]):
                stats.inc("base_not_accepted")
                fault = None
        r = worker.transpile([(f[0], f[1]) for f in files], False, dir=case.get("dir", ""))
        oc = outcome(r)
        if oc == "ok":
            stats.inc("accepted")
            if fault is not None:
                return {"what": "a program with an injected %s fault on line %d is accepted" % (fault["kind"], fault["line"])}
            return None
        if oc != "err":
            stats.inc("crash_left_to_C03")
            return None
        stats.inc("rejected")
        if fault:
            stats.inc("fault:" + fault["kind"])
            if case.get("crlf"):
                stats.inc("fault_in_crlf_file")
        diags = r["err"]
        if not diags or not all(isinstance(d, str) and d.strip() for d in diags):
            return {"what": "rejection without (non-empty) diagnostics", "diagnostics": diags}
        by_path = {}
        for text, path in files:
            # the display path: source dir's last component + relative path (src/lib.rs strip_prefix)
            by_path[path] = text
        lines_hit = []
        for d in diags:
            hdr = None
            for ln in d.split("\n"):
                m = HEADER.match(ln)
                if m and ("──→" in ln or "-->" in ln):
                    hdr = m
                    break
            if hdr is None:
                # whatever the layout of the header: some line names one of the input files, optionally with :line:col
                for known in sorted(by_path, key=lambda x: -len(x or "")):
                    m2 = re.search(r"(%s)(?::(\d+):(\d+))?" % re.escape(known), d) if known else None
                    if m2:
                        hdr = m2
                        stats.inc("header_in_another_layout")
                        break
            if hdr is None:
                return {"what": "diagnostic without location header", "diagnostic": d}
            path, line, col = hdr.group(1), hdr.group(2), hdr.group(3)
            if path.startswith("./"):
                path = path[2:]
            if path not in by_path:
                return {"what": "diagnostic names %r, which is not one of the input files %s" % (path, sorted(by_path)),
                        "diagnostic": d}
            if fault and path != fault["path"]:
                return {"what": "diagnostic names %s but the single fault is in %s" % (path, fault["path"]), "diagnostic": d}
            if case.get("only_path") and path != case["only_path"]:
                return {"what": "diagnostic names %s but only %s has a fault" % (path, case["only_path"]), "diagnostic": d}
            src_lines = by_path[path].replace("\r\n", "\n").split("\n")
            if by_path[path].endswith("\n"):
                nlines = len(src_lines) - 1
            else:
                nlines = len(src_lines)
            if line is not None:
                line, col = int(line), int(col)
                if not (1 <= line <= nlines + 1):
                    return {"what": "position line %d lies outside the file (%d lines)" % (line, nlines), "diagnostic": d}
                text = src_lines[line - 1] if line - 1 < len(src_lines) else ""
                if not (1 <= col <= len(text) + 2):
                    return {"what": "position column %d lies outside line %d (%d characters)" % (col, line, len(text)),
                            "diagnostic": d}
                lines_hit.append(line)
            prev_q = None
            for ln in d.split("\n"):
                q = QUOTED.match(ln) or QUOTED_LEX.match(ln)
                if q:
                    n, quoted = int(q.group(1)), q.group(2)
                    if not (1 <= n <= len(src_lines)) or src_lines[n - 1].rstrip("\r") != quoted:
                        return {"what": "quoted line %d is not line %d of %s" % (n, n, path), "diagnostic": d,
                                "actual_line": src_lines[n - 1] if 1 <= n <= len(src_lines) else None}
                    prev_q = n
                elif CARET.match(ln) and prev_q is not None:
                    lines_hit.append(prev_q)
        toks = worker.lex(files[0][0]).get("tokens", [])
        if len(toks) >= 3 or len(files) > 1:
            stats.mark_nontrivial({"files": files}, sample=self.summarize(case), key=(fault or {}).get("kind") or case.get("gen"))
        ok_lines = [fault["line"]] + ([fault["line"] - 1] if fault and fault["kind"] == "fin_assign" else []) if fault else []
        if fault and not any(l in lines_hit for l in ok_lines):
            return {"what": "no reported position is on line %d, where the single %s fault was injected (reported: %s)"
                            % (fault["line"], fault["kind"], sorted(set(lines_hit))), "diagnostics": diags[:3]}
        return None
