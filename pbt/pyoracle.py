"""Python-side judges: compile, in-process execution of emitted modules with captured print and a deterministic
step budget (sys.settrace line counter, never a wall clock)."""
import builtins
import sys
import warnings


class StepBudget(BaseException):
    pass


def compiles(src, name="<emitted>"):
    """None if CPython accepts the module, else the error text."""
    try:
        with warnings.catch_warnings():
            warnings.simplefilter("ignore")
            compile(src, name, "exec", dont_inherit=True)
    except (SyntaxError, ValueError) as e:  # ValueError: source contains NUL
        return "%s: %s" % (type(e).__name__, e)
    return None


def run_module(src, max_lines):
    """Execute emitted Python. -> dict(out=[printed strings], exc=class name|None, budget=bool, compile_error=str|None)"""
    out = []

    def _print(*args, **kw):
        out.append(" ".join(str(a) for a in args))

    try:
        with warnings.catch_warnings():
            warnings.simplefilter("ignore")
            code = compile(src, "<emitted>", "exec", dont_inherit=True)
    except (SyntaxError, ValueError) as e:
        return {"out": [], "exc": None, "budget": False, "compile_error": "%s: %s" % (type(e).__name__, e)}
    g = {"__name__": "__main__", "__builtins__": dict(vars(builtins), print=_print)}
    count = [0]

    def tracer(frame, event, arg):
        if event == "line":
            count[0] += 1
            if count[0] > max_lines:
                raise StepBudget()
        return tracer

    exc = None
    budget = False
    old = sys.gettrace()
    old_limit = sys.getrecursionlimit()
    sys.setrecursionlimit(3000)
    sys.settrace(tracer)
    try:
        exec(code, g)
    except StepBudget:
        budget = True
    except BaseException as e:  # noqa
        exc = type(e).__name__
        excmsg = str(e)[:200]
    finally:
        sys.settrace(old)
        sys.setrecursionlimit(old_limit)
    r = {"out": out, "exc": exc, "budget": budget, "compile_error": None, "lines": count[0]}
    if exc:
        r["excmsg"] = excmsg
    return r
