"""Typed Mamba expression text for the end-to-end half of C10 (and reused by C14's redundant parentheses).

Only *text* is generated here: the grouping that counts is the one mamba's own parser chooses, which the check reads
back through the worker's `parse` op. Parentheses are placed at random (needed ones are sometimes omitted on
purpose), so a share of the drawn texts is ill-typed or unparsable; those are counted as rejected."""
from hypothesis import strategies as st

PRELUDE = """class Obj(def v: Int)
    def m(self, k: Int) -> Int => k + self.v
def f(k: Int) -> Int => k + 1
def g(j: Int, k: Int) -> Int => j - k
def h(u: Float) -> Float => u
def t(w: Bool) -> Bool => w
def a := 7
def b := 3
def c := 2
def x := 2.5
def y := 0.5
def p := True
def q := False
def l := [4, 5, 6]
def o := Obj(9)
def n: Int? := None
"""

INT_BIN = ["+", "-", "*", "//", "mod", "^", "<<", ">>", "_and_", "_or_", "_xor_"]
FLOAT_BIN = ["+", "-", "*", "/", "^"]
CMP = ["<", "<=", ">", ">=", "="]


def _paren(draw, text, p):
    """Wrap in parentheses with probability p (a Hypothesis draw)."""
    if draw(st.integers(0, 99)) < p:
        return "(" + text + ")"
    return text


@st.composite
def expr(draw, ty="I", depth=3, p_paren=55):
    """Text of an expression of type ty in {'I','B','F'}."""
    if depth <= 0:
        return draw(_atom(ty))
    d = depth - 1
    if ty == "I":
        kind = draw(st.sampled_from(["atom", "bin", "bin", "bin", "neg", "bnot", "call", "call2", "index", "field",
                                     "method", "if", "quest", "enum", "ctor"]))
        if kind == "atom":
            return draw(_atom("I"))
        if kind == "bin":
            op = draw(st.sampled_from(INT_BIN))
            left = _paren(draw, draw(expr("I", d, p_paren)), p_paren)
            right = _paren(draw, draw(expr("I", d, p_paren)), p_paren)
            return "%s %s %s" % (left, op, right)
        if kind == "neg":
            return "-" + _paren(draw, draw(expr("I", d, p_paren)), 70)
        if kind == "bnot":
            return "_not_ " + _paren(draw, draw(expr("I", d, p_paren)), 50)
        if kind == "call":
            return "f(%s)" % draw(expr("I", d, p_paren))
        if kind == "call2":
            return "g(%s, %s)" % (draw(expr("I", d, p_paren)), draw(expr("I", d, p_paren)))
        if kind == "index":
            return "l[%s]" % draw(expr("I", d, p_paren))
        if kind == "field":
            return draw(st.sampled_from(["o.v", "Obj(%s).v"])).replace("%s", draw(expr("I", d, p_paren)))
        if kind == "method":
            return "o.m(%s)" % draw(expr("I", d, p_paren))
        if kind == "if":
            return _paren(draw, "if %s then %s else %s" % (
                draw(expr("B", d, p_paren)), draw(expr("I", d, p_paren)), draw(expr("I", d, p_paren))), 80)
        if kind == "quest":
            return _paren(draw, "n ? %s" % _paren(draw, draw(expr("I", d, p_paren)), p_paren), 70)
        if kind == "enum":
            return draw(st.sampled_from(["1E2", "2E3", "5E0"]))
        return "Obj(%s).m(%s)" % (draw(expr("I", d, p_paren)), draw(expr("I", d, p_paren)))
    if ty == "F":
        kind = draw(st.sampled_from(["atom", "bin", "bin", "div", "sqrt", "neg", "call", "if"]))
        if kind == "atom":
            return draw(_atom("F"))
        if kind == "bin":
            op = draw(st.sampled_from(FLOAT_BIN))
            left = _paren(draw, draw(expr("F", d, p_paren)), p_paren)
            rt = draw(st.sampled_from(["F", "F", "I"]))
            right = _paren(draw, draw(expr(rt, d, p_paren)), p_paren)
            return "%s %s %s" % (left, op, right)
        if kind == "div":
            return "%s / %s" % (_paren(draw, draw(expr("I", d, p_paren)), p_paren),
                                _paren(draw, draw(expr("I", d, p_paren)), p_paren))
        if kind == "sqrt":
            return "sqrt " + _paren(draw, draw(expr(draw(st.sampled_from(["I", "F"])), d, p_paren)), 50)
        if kind == "neg":
            return "-" + _paren(draw, draw(expr("F", d, p_paren)), 70)
        if kind == "call":
            return "h(%s)" % draw(expr("F", d, p_paren))
        return _paren(draw, "if %s then %s else %s" % (
            draw(expr("B", d, p_paren)), draw(expr("F", d, p_paren)), draw(expr("F", d, p_paren))), 80)
    # Bool
    kind = draw(st.sampled_from(["atom", "cmp", "cmp", "and", "or", "not", "in", "eq", "call", "if", "isa"]))
    if kind == "atom":
        return draw(_atom("B"))
    if kind == "cmp":
        op = draw(st.sampled_from(CMP))
        lt = draw(st.sampled_from(["I", "I", "F"]))
        rt = "I" if op == "=" and lt == "I" else draw(st.sampled_from(["I", "F"])) if op != "=" else lt
        return "%s %s %s" % (_paren(draw, draw(expr(lt, d, p_paren)), p_paren), op,
                             _paren(draw, draw(expr(rt, d, p_paren)), p_paren))
    if kind in ("and", "or"):
        return "%s %s %s" % (_paren(draw, draw(expr("B", d, p_paren)), p_paren), kind,
                             _paren(draw, draw(expr("B", d, p_paren)), p_paren))
    if kind == "not":
        return "not " + _paren(draw, draw(expr("B", d, p_paren)), 50)
    if kind == "in":
        return "%s in %s" % (_paren(draw, draw(expr("I", d, p_paren)), p_paren),
                             draw(st.sampled_from(["l", "[a, b]", "{a, c}"])))
    if kind == "eq":
        return "%s = %s" % (_paren(draw, draw(expr("B", d, p_paren)), 80),
                            _paren(draw, draw(expr("B", d, p_paren)), 80))
    if kind == "call":
        return "t(%s)" % draw(expr("B", d, p_paren))
    if kind == "isa":
        return "%s isa Int" % _paren(draw, draw(expr("I", d, p_paren)), p_paren)
    return _paren(draw, "if %s then %s else %s" % (
        draw(expr("B", d, p_paren)), draw(expr("B", d, p_paren)), draw(expr("B", d, p_paren))), 80)


def _atom(ty):
    if ty == "I":
        return st.sampled_from(["a", "b", "c", "1", "2", "10", "0"])
    if ty == "F":
        return st.sampled_from(["x", "y", "1.5", "0.25"])
    return st.sampled_from(["p", "q", "True", "False"])


TYPE_NAME = {"I": "Int", "F": "Float", "B": "Bool"}

CONTEXTS = ["init", "init", "arg", "ret", "cond", "index", "range_to", "range_from", "reassign", "print"]


@st.composite
def program(draw, depth=3):
    """(source, context, type) — PRELUDE plus one statement that holds the expression in a drawn context."""
    ctx = draw(st.sampled_from(CONTEXTS))
    ty = {"arg": "I", "index": "I", "range_to": "I", "range_from": "I", "cond": "B"}.get(ctx) or \
        draw(st.sampled_from(["I", "I", "B", "F"]))
    e = draw(expr(ty, depth))
    if ctx == "init":
        tail = "def r: %s := %s\n" % (TYPE_NAME[ty], e)
    elif ctx == "arg":
        tail = "def r: Int := g(%s, 1)\n" % e
    elif ctx == "ret":
        tail = "def k(z: Int) -> %s => %s\n" % (TYPE_NAME[ty], e)
    elif ctx == "cond":
        tail = "if %s then print(1) else print(2)\n" % e
    elif ctx == "index":
        tail = "def r: Int := l[%s]\n" % e
    elif ctx == "range_to":
        tail = "for i in 0 ..= (%s) do print(i)\n" % e
    elif ctx == "range_from":
        tail = "for i in (%s) .. 9 do print(i)\n" % e
    elif ctx == "reassign":
        tail = "def r: %s := %s\nr := %s\n" % (TYPE_NAME[ty], draw(_atom(ty)), e)
    else:
        tail = "print(%s)\n" % e
    return {"src": PRELUDE + tail, "ctx": ctx, "ty": ty, "expr": e}


def sign_stress():
    """Deterministic list: every binary operator with a signed literal / signed name (with and without parentheses, doubled
    signs, E-notation) as left and as right operand, the same forms under unary operators, as receiver, argument and index,
    and comparisons with a parenthesised comparison as operand. (source text, type) pairs for the `init` / `print` contexts."""
    si = ["-2", "(-2)", "-(2)", "- -2", "-(-2)", "-a", "(-a)", "-1E2", "(-1E2)", "-(a + 1)", "(-a + 1)"]
    sf = ["-1.5", "(-1.5)", "-(1.5)", "- -1.5", "-(-1.5)", "-x", "(-x)", "-(x + 0.5)", "(-0.25)"]
    out = []
    for op in INT_BIN:
        for f in si:
            for other in ("b", "2"):
                out.append(("%s %s %s" % (f, op, other), "I"))
                out.append(("%s %s %s" % (other, op, f), "I"))
        out.append(("%s %s %s" % (si[1], op, si[1]), "I"))
    for op in FLOAT_BIN:
        for f in sf:
            for other in ("y", "2", "0.5"):
                out.append(("%s %s %s" % (f, op, other), "F"))
                if other != "2":
                    out.append(("%s %s %s" % (other, op, f), "F"))
        for f in si[:5]:
            out.append(("x %s %s" % (op, f), "F"))
    for op in CMP:
        for f in si[:7]:
            out.append(("%s %s b" % (f, op), "B"))
            out.append(("b %s %s" % (op, f), "B"))
        for f in sf[:7]:
            if op != "=":
                out.append(("%s %s y" % (f, op), "B"))
                out.append(("y %s %s" % (op, f), "B"))
    for f in si:
        out += [("f(%s)" % f, "I"), ("g(%s, %s)" % (f, f), "I"), ("l[%s + 3]" % f, "I"), ("_not_ %s" % f, "I"), ("-%s" % f, "I"),
                ("Obj(%s).v" % f, "I"), ("o.m(%s)" % f, "I"), ("(%s).m(1)" % f if False else "Obj(%s).m(%s)" % (f, f), "I"),
                ("if p then %s else %s" % (f, f), "I"), ("n ? %s" % f, "I"), ("%s isa Int" % f, "B")]
    for f in sf:
        out += [("h(%s)" % f, "F"), ("-%s" % f, "F"), ("sqrt %s" % f.replace("-", "", 1) if False else "sqrt (%s ^ 2)" % f, "F"),
                ("if p then %s else %s" % (f, f), "F")]
    # comparisons and equalities whose operand is itself a comparison (Python would chain them)
    cmps = ["a < b", "a = b", "a >= c", "x < y"]
    for l in cmps:
        for op in ("=", "!="):
            out += [("(%s) %s (%s)" % (l, op, r), "B") for r in cmps[:2]]
            out += [("(%s) %s p" % (l, op), "B"), ("p %s (%s)" % (op, l), "B")]
        out += [("(a in l) = p", "B"), ("p = (a in l)", "B"), ("not (%s) = p" % l, "B"), ("(not %s) = p" % l, "B")]
    return out
