"""Ad-hoc probe: python3-vt -m pbt.trym [-x] < file.mamba  — transpile with both settings, optionally run."""
import sys, io, contextlib
from pbt.worker import Worker

def main():
    run = "-x" in sys.argv
    src = sys.stdin.read()
    w = Worker()
    for ann in (False, True):
        r = w.transpile1(src, ann)
        print("=== annotate=%s cpu=%.3f" % (ann, r.get("cpu", -1)))
        if "ok" in r:
            print(r["ok"][0])
            if run:
                buf = io.StringIO()
                try:
                    with contextlib.redirect_stdout(buf):
                        exec(compile(r["ok"][0], "<out>", "exec"), {"__name__": "__main__"})
                except BaseException as e:
                    print("EXC", type(e).__name__, e)
                print("--- stdout:\n" + buf.getvalue())
        elif "err" in r:
            for e in r["err"]:
                print(e)
        else:
            print(r)
    w.close()
main()
