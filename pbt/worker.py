"""Client side of the mverif worker (see /verif/harness/src/main.rs).

A Worker owns one child process. `call` sends one JSON request and returns the reply dict;
outcomes that are not replies are mapped to dicts as well:

  {"abort": <signal or exit code>}   the worker died (stack overflow, abort()) on this request
  {"timeout": cpu_seconds}           the request thread used more CPU than `cpu_limit`
  {"wedged": True}                   the wall-clock watchdog (10x the CPU bound) fired: never a
                                     violation, the run ends "inconclusive"

After any of these the worker is restarted lazily.
"""
import json
import os
import select
import signal
import subprocess
import time

WORKER_BIN = os.environ.get("MVERIF_BIN", os.path.join(os.environ.get("VERIF_ROOT", "/verif"), "target/verif/mverif"))


class Wedged(Exception):
    pass


class Worker:
    def __init__(self, cpu_limit=120.0):
        self.cpu_limit = cpu_limit
        self.proc = None
        self.restarts = 0
        self.calls = 0

    def _start(self):
        self.proc = subprocess.Popen(
            [WORKER_BIN],
            stdin=subprocess.PIPE,
            stdout=subprocess.PIPE,
            stderr=subprocess.DEVNULL,
            bufsize=0,
        )
        self._buf = b""

    def close(self):
        if self.proc is not None:
            try:
                self.proc.stdin.close()
            except Exception:
                pass
            try:
                self.proc.wait(timeout=2)
            except Exception:
                self.proc.kill()
                self.proc.wait()
            self.proc = None

    def _kill(self):
        if self.proc is not None:
            try:
                self.proc.kill()
            except Exception:
                pass
            self.proc.wait()
            self.proc = None

    def _readline(self, wall_limit):
        deadline = time.monotonic() + wall_limit
        fd = self.proc.stdout.fileno()
        while True:
            nl = self._buf.find(b"\n")
            if nl >= 0:
                line, self._buf = self._buf[:nl], self._buf[nl + 1:]
                return line
            remaining = deadline - time.monotonic()
            if remaining <= 0:
                raise Wedged()
            r, _, _ = select.select([fd], [], [], min(remaining, 1.0))
            if r:
                chunk = os.read(fd, 1 << 16)
                if not chunk:
                    return None  # EOF
                self._buf += chunk

    def call(self, req, cpu_limit=None):
        if self.proc is None or self.proc.poll() is not None:
            if self.proc is not None:
                self._kill()
            self._start()
        limit = self.cpu_limit if cpu_limit is None else cpu_limit
        req = dict(req)
        req["cpu_limit"] = limit
        data = (json.dumps(req) + "\n").encode("utf-8")
        self.calls += 1
        try:
            self.proc.stdin.write(data)
            self.proc.stdin.flush()
        except BrokenPipeError:
            pass
        try:
            line = self._readline(wall_limit=10 * limit + 30)
        except Wedged:
            self._kill()
            self.restarts += 1
            return {"wedged": True}
        if line is None:
            rc = self.proc.wait()
            self.proc = None
            self.restarts += 1
            return {"abort": signal.Signals(-rc).name if rc < 0 else "exit %d" % rc}
        reply = json.loads(line)
        if "timeout" in reply:
            try:
                self.proc.wait(timeout=5)
            except Exception:
                self._kill()
            self.proc = None
            self.restarts += 1
        return reply

    # convenience wrappers -------------------------------------------------------------
    def transpile(self, files, annotate, dir="", cpu_limit=None):
        """files: list of (source, path-or-None)."""
        return self.call(
            {"op": "transpile", "files": [[s, p] for s, p in files], "dir": dir,
             "annotate": bool(annotate)}, cpu_limit=cpu_limit)

    def transpile1(self, src, annotate, cpu_limit=None):
        return self.transpile([(src, None)], annotate, cpu_limit=cpu_limit)

    def lex(self, src):
        return self.call({"op": "lex", "src": src})


def outcome(reply):
    """Classify a reply of a transpile call: ok / err / panic / abort / timeout / wedged."""
    for k in ("ok", "err", "panic", "abort", "timeout", "wedged"):
        if k in reply:
            return k
    return "error"
