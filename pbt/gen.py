"""CoreGen: type-directed, constructive Hypothesis generator for programs of pbt.model.

Every random choice is a Hypothesis draw. The typing discipline is the intersection of "documented" and "declared in
mamba's stub files" (DESIGN.md appendix B), plus the *inference discipline* observed on the pinned tree: some
expression kinds only type-check where an expected type is known (unary minus, if-expression, `?`, match/handle
expressions) — they are called WEAK here and are only placed in annotated definitions, arguments, returns and right
operands. Nothing here is an oracle; a program the checker rejects is counted, never judged by the generator.
"""
from hypothesis import strategies as st

from pbt.model import (BOOL, FLOAT, INT, PRIMS, STR, TCls, TList, TOpt, is_cls, is_list, is_opt, rx)

WORDS = ["a", "b", "ab", "x y", "foo", "", "Zed", "q1", "hello", "-", "n=1"]


class Scope:
    def __init__(self, parent=None):
        self.parent = parent
        self.vars = {}  # name -> (type, mutable_for_generator)

    def add(self, name, ty, mutable):
        self.vars[name] = (ty, mutable)

    def all(self):
        out = {}
        s = self
        chain = []
        while s is not None:
            chain.append(s)
            s = s.parent
        for s in reversed(chain):
            out.update(s.vars)
        return out

    def of_type(self, ty, mutable_only=False):
        return [n for n, (t, m) in self.all().items() if t == ty and (m or not mutable_only)]

    def matching(self, pred, mutable_only=False):
        return [(n, t) for n, (t, m) in self.all().items() if pred(t) and (m or not mutable_only)]


class Ctx:
    """Where a block is generated."""

    def __init__(self, fun=None, depth=0, in_loop=False, declared=()):
        self.fun = fun  # None at top level, else dict(ret=..., raises=[...])
        self.depth = depth
        self.in_loop = in_loop
        self.declared = tuple(declared)  # exception classes that may propagate here

    def deeper(self, **kw):
        c = Ctx(self.fun, self.depth + 1, self.in_loop, self.declared)
        for k, v in kw.items():
            setattr(c, k, v)
        return c


DEFAULT_PROFILE = {
    "classes": True, "exceptions": True, "functions": True, "floats": True, "strings": True,
    "lists": True, "optionals": True, "match": True, "handle": True, "loops": True,
    "max_main": 6, "max_depth": 2, "expr_depth": 2,
    # exclusions by construction for open known findings (names are referenced from known_findings.json)
    "no_falsy_left_of_default": False,
    "no_match_binding_in_float_op": False,
    "no_own_class_typed_method_param": False,
}


_OPEN_SWITCHES = None


def open_finding_switches():
    """Generator switches of ALL open known findings (whatever property lists them): a genuine defect that one
    property records must not make the checks of the other properties flicker."""
    global _OPEN_SWITCHES
    if _OPEN_SWITCHES is None:
        import json
        import os
        out = {}
        path = os.path.join(os.environ.get("VERIF_ROOT", "/verif"), "known_findings.json")
        if os.path.exists(path):
            with open(path) as fh:
                for f in json.load(fh).get("findings", []):
                    if f.get("status") == "open":
                        for sw in f.get("excluded_by", []) or []:
                            name = sw.split(".", 1)[-1]
                            if name in DEFAULT_PROFILE:
                                out[name] = True
        _OPEN_SWITCHES = out
    return _OPEN_SWITCHES


class G:
    def __init__(self, draw, profile=None):
        self.draw = draw
        self.p = dict(DEFAULT_PROFILE)
        self.p.update(open_finding_switches())
        if profile:
            self.p.update(profile)
        self.n = 0
        self.funs = {}     # name -> fun dict
        self.classes = {}  # name -> class dict
        self.excs = {}     # exception class name -> parent name
        self.items = []
        self.excluded = {}
        self.list_len = {}
        self.tainted = set()      # match bindings (see no_match_binding_in_float_op)
        self.avoid = set()
        self.stmt_budget = 22     # statements per program (the checker's cost is steeply super-linear)
        self.branch_budget = 5    # if / match / loops / handle constructs per program

    # -- small draws ----------------------------------------------------------------------------
    def fresh(self, prefix):
        self.n += 1
        return "%s%d" % (prefix, self.n)

    def int(self, lo, hi):
        return self.draw(st.integers(lo, hi))

    def chance(self, pct):
        return self.draw(st.integers(0, 99)) < pct

    def pick(self, seq):
        seq = list(seq)
        return seq[self.draw(st.integers(0, len(seq) - 1))]

    def weighted(self, pairs):
        """pairs: [(weight, value)] with positive weights; first entries are the simplest (shrink target)."""
        total = sum(w for w, _ in pairs)
        r = self.draw(st.integers(0, total - 1))
        for w, v in pairs:
            if r < w:
                return v
            r -= w
        return pairs[-1][1]

    # -- types -------------------------------------------------------------------------------------
    def prim(self):
        c = [INT, INT, BOOL]
        if self.p["strings"]:
            c.append(STR)
        if self.p["floats"]:
            c.append(FLOAT)
        return self.pick(c)

    def any_type(self, allow_cls=True, allow_opt=True, allow_list=True):
        opts = [(6, "prim")]
        if allow_list and self.p["lists"]:
            opts.append((1, "list"))
        if allow_opt and self.p["optionals"]:
            opts.append((1, "opt"))
        if allow_cls and self.value_classes():
            opts.append((2, "cls"))
        k = self.weighted(opts)
        if k == "prim":
            return self.prim()
        if k == "list":
            return TList(self.pick([INT, INT, STR] if self.p["strings"] else [INT]))
        if k == "opt":
            return TOpt(self.pick([INT, STR] if self.p["strings"] else [INT]))
        return TCls(self.pick(self.value_classes()))

    def value_classes(self):
        return [n for n in self.classes if n not in self.excs]

    # -- literals ----------------------------------------------------------------------------------
    def lit(self, ty):
        if ty == INT:
            return ("lit", INT, self.int(0, 20))
        if ty == FLOAT:
            return ("lit", FLOAT, self.int(0, 40) / 4.0)
        if ty == BOOL:
            return ("lit", BOOL, self.draw(st.booleans()))
        if ty == STR:
            return ("lit", STR, self.pick(WORDS))
        raise ValueError(ty)

    # -- expressions ---------------------------------------------------------------------------------
    def expr(self, ty, sc, depth=None, strong=False):
        if depth is None:
            depth = self.p["expr_depth"]
        if is_opt(ty):
            return self.opt_expr(ty, sc, depth, strong)
        if is_list(ty):
            return self.list_expr(ty, sc, depth)
        if is_cls(ty):
            return self.cls_expr(ty, sc, depth)
        if ty == INT:
            return self.int_expr(sc, depth, strong)
        if ty == FLOAT:
            return self.float_expr(sc, depth, strong)
        if ty == STR:
            return self.str_expr(sc, depth, strong)
        if ty == BOOL:
            return self.bool_expr(sc, depth, strong)
        raise ValueError(ty)

    def atom(self, ty, sc):
        """literal, variable, field or index of that type (always STRONG)."""
        opts = [(3, "lit")]
        usable = [n for n in sc.of_type(ty) if n not in self.avoid]
        if usable:
            opts.append((5, "var"))
        fields = self.field_sources(ty, sc)
        if fields:
            opts.append((2, "field"))
        lists = sc.of_type(TList(ty))
        if lists:
            opts.append((1, "index"))
        k = self.weighted(opts)
        if k == "var":
            return ("var", ty, self.pick(usable))
        if k == "field":
            recv, f = self.pick(fields)
            return ("field", ty, recv, f)
        if k == "index":
            name = self.pick(lists)
            n = self.list_len.get(name, 0)
            if n > 0:
                return ("index", ty, ("var", TList(ty), name), ("lit", INT, self.int(0, n - 1)))
        return self.lit(ty)

    def field_sources(self, ty, sc):
        """(receiver expression, field name) pairs readable in this scope with field type ty."""
        out = []
        for name, (t, _m) in sc.all().items():
            if is_cls(t) and t[1] in self.classes and t[1] not in self.excs:
                for fname, ft, _fin in self.all_fields(t[1]):
                    if ft == ty:
                        out.append((("var", t, name), fname))
        return out

    def all_fields(self, cname):
        """[(name, type, fin)] incl. inherited"""
        out = []
        seen = set()
        while cname is not None and cname in self.classes:
            c = self.classes[cname]
            for (n, t, is_field) in c["args"]:
                if is_field and n not in seen:
                    out.append((n, t, False))
                    seen.add(n)
            for (n, t, init, fin) in c.get("fields", []):
                if n not in seen:
                    out.append((n, t, fin))
                    seen.add(n)
            cname = c["parent"][0] if c.get("parent") else None
        return out

    def all_methods(self, cname):
        out = []
        seen = set()
        while cname is not None and cname in self.classes:
            c = self.classes[cname]
            for m in c.get("methods", []):
                if m["name"] not in seen:
                    out.append(m)
                    seen.add(m["name"])
            cname = c["parent"][0] if c.get("parent") else None
        return out

    def callable_funs(self, ty, allow_raise, declared=()):
        out = []
        for f in self.funs.values():
            if f["ret"] != ty or f.get("hidden"):
                continue
            if f["raises"] and not allow_raise and not all(self.covered(r, declared) for r in f["raises"]):
                continue
            out.append(f)
        return out

    def covered(self, exc, declared):
        e = exc
        while e is not None:
            if e in declared:
                return True
            e = self.excs.get(e)
        return "Exception" in declared

    def call_args(self, f, sc, depth, skip_defaults=True):
        args = []
        params = f["params"]
        n = len(params)
        if skip_defaults:
            while n > 0 and params[n - 1][2] is not None and self.chance(40):
                n -= 1
        for (pn, pt, d) in params[:n]:
            args.append(self.expr(pt, sc, max(depth - 1, 0)))
        return args

    def call_expr(self, ty, sc, depth, declared=()):
        fs = self.callable_funs(ty, False, declared)
        if not fs:
            return None
        f = self.pick(fs)
        return ("call", ty, f["name"], self.call_args(f, sc, depth))

    def mcall_expr(self, ty, sc, depth):
        cands = []
        for name, (t, _m) in sc.all().items():
            if is_cls(t) and t[1] in self.classes and t[1] not in self.excs:
                for m in self.all_methods(t[1]):
                    if m["ret"] == ty and m.get("self_fin") and not m["raises"]:
                        cands.append((name, t, m))
        if not cands:
            return None
        name, t, m = self.pick(cands)
        return ("mcall", ty, ("var", t, name), m["name"], self.call_args(m, sc, depth))

    def int_expr(self, sc, depth, strong):
        if depth <= 0:
            return self.atom(INT, sc)
        opts = [(4, "atom"), (6, "bin"), (2, "call"), (1, "mcall"), (1, "conv")]
        if not strong:
            opts += [(1, "neg"), (2, "ifx")]
            if self.p["optionals"] and sc.of_type(TOpt(INT)):
                opts.append((2, "dflt"))
        k = self.weighted(opts)
        d = depth - 1
        if k == "atom":
            return self.atom(INT, sc)
        if k == "bin":
            op = self.pick(["+", "-", "*", "+", "-", "*", "//", "mod", "^"])
            left = self.int_expr(sc, d, True)
            if op in ("//", "mod"):
                right = ("lit", INT, self.int(1, 9))
            elif op == "^":
                right = ("lit", INT, self.int(0, 3))
            else:
                right = self.int_expr(sc, d, False)
            return ("bin", INT, op, left, right)
        if k == "call":
            return self.call_expr(INT, sc, d, self.cur_declared) or self.atom(INT, sc)
        if k == "mcall":
            return self.mcall_expr(INT, sc, d) or self.atom(INT, sc)
        if k == "conv":
            if self.p["strings"] and self.chance(50):
                return ("conv", INT, "Int", ("lit", STR, str(self.int(0, 99))))
            if self.p["floats"]:
                return ("conv", INT, "Int", self.float_expr(sc, 0, True))
            return self.atom(INT, sc)
        if k == "neg":
            return ("neg", INT, self.int_expr(sc, d, True))
        if k == "ifx":
            return ("ifx", INT, self.bool_expr(sc, d, True), self.int_expr(sc, d, False), self.int_expr(sc, d, False))
        if k == "dflt":
            name = self.pick(sc.of_type(TOpt(INT)))
            return ("dflt", INT, ("var", TOpt(INT), name), self.nonfalsy_default(INT, sc, d))
        raise AssertionError(k)

    def untainted(self, thunk):
        """Run a sub-generation in which match bindings are not used (open finding F32), counting redirections."""
        if not self.p["no_match_binding_in_float_op"] or not self.tainted:
            return thunk()
        old = self.avoid
        self.avoid = set(self.tainted)
        self.excluded["no_match_binding_in_float_op"] = self.excluded.get("no_match_binding_in_float_op", 0) + 1
        try:
            return thunk()
        finally:
            self.avoid = old

    def nonfalsy_default(self, ty, sc, d):
        return self.expr(ty, sc, d, True)

    def float_expr(self, sc, depth, strong):
        if depth <= 0:
            return self.atom(FLOAT, sc)
        opts = [(4, "atom"), (5, "bin"), (2, "div"), (1, "call"), (1, "conv")]
        if not strong:
            opts += [(1, "neg"), (1, "ifx")]
        k = self.weighted(opts)
        d = depth - 1
        if k == "atom":
            return self.atom(FLOAT, sc)
        if k == "bin":
            op = self.pick(["+", "-", "*", "/"])
            left = self.float_expr(sc, d, True)
            if op == "/":
                right = self.pick([("lit", FLOAT, 2.0), ("lit", FLOAT, 0.5), ("lit", INT, 4), ("lit", FLOAT, 1.25)])
            elif self.chance(30):
                right = self.untainted(lambda: self.int_expr(sc, d, False))
            else:
                right = self.float_expr(sc, d, False)
            return ("bin", FLOAT, op, left, right)
        if k == "div":
            return ("bin", FLOAT, "/", self.untainted(lambda: self.int_expr(sc, d, True)), ("lit", INT, self.int(1, 8)))
        if k == "call":
            return self.call_expr(FLOAT, sc, d, self.cur_declared) or self.atom(FLOAT, sc)
        if k == "conv":
            return ("conv", FLOAT, "Float", self.int_expr(sc, 0, True))
        if k == "neg":
            return ("neg", FLOAT, self.float_expr(sc, d, True))
        return ("ifx", FLOAT, self.bool_expr(sc, d, True), self.float_expr(sc, d, False), self.float_expr(sc, d, False))

    def str_expr(self, sc, depth, strong):
        if depth <= 0:
            return self.atom(STR, sc)
        opts = [(4, "atom"), (3, "cat"), (3, "fstr"), (1, "call"), (1, "conv"), (1, "mcall")]
        if not strong:
            opts += [(1, "ifx")]
            if self.p["optionals"] and sc.of_type(TOpt(STR)):
                opts.append((1, "dflt"))
        k = self.weighted(opts)
        d = depth - 1
        if k == "atom":
            return self.atom(STR, sc)
        if k == "cat":
            return ("bin", STR, "+", self.str_expr(sc, d, True), self.str_expr(sc, d, False))
        if k == "fstr":
            parts = []
            for _ in range(self.int(1, 3)):
                if self.chance(50):
                    parts.append(self.pick(["a", " ", "=", "x:", ", ", "<", ">"]))
                else:
                    t = self.pick([INT, INT, STR, BOOL] + ([FLOAT] if self.p["floats"] else []))
                    part = self.expr(t, sc, max(d - 1, 0), True)
                    if '"' in rx(part, True):
                        # a quote inside an interpolation is valid Python only from 3.12 on (C02's business)
                        part = self.int_expr(sc, 1, True)
                        if '"' in rx(part, True):
                            part = self.lit(INT)
                    parts.append(part)
            return ("fstr", STR, parts)
        if k == "call":
            return self.call_expr(STR, sc, d, self.cur_declared) or self.atom(STR, sc)
        if k == "mcall":
            return self.mcall_expr(STR, sc, d) or self.atom(STR, sc)
        if k == "conv":
            return ("conv", STR, "Str", self.int_expr(sc, 0, True))
        if k == "ifx":
            return ("ifx", STR, self.bool_expr(sc, d, True), self.str_expr(sc, d, False), self.str_expr(sc, d, False))
        name = self.pick(sc.of_type(TOpt(STR)))
        return ("dflt", STR, ("var", TOpt(STR), name), self.nonfalsy_default(STR, sc, d))

    def bool_expr(self, sc, depth, strong):
        if depth <= 0:
            return self.atom(BOOL, sc)
        opts = [(2, "atom"), (6, "cmp"), (2, "eq"), (2, "and"), (2, "or"), (2, "not"), (1, "in"), (1, "call")]
        if not strong:
            opts += [(1, "ifx")]
        k = self.weighted(opts)
        d = depth - 1
        if k == "atom":
            return self.atom(BOOL, sc)
        if k == "cmp":
            op = self.pick(["<", "<=", ">", ">="])
            if self.p["floats"] and self.chance(25):
                lt, rt = self.pick([(FLOAT, FLOAT), (FLOAT, INT), (INT, FLOAT)])
            else:
                lt, rt = INT, INT
            if lt != rt:
                return self.untainted(lambda: ("cmp", BOOL, op, self.expr(lt, sc, d, True), self.expr(rt, sc, d, False)))
            return ("cmp", BOOL, op, self.expr(lt, sc, d, True), self.expr(rt, sc, d, False))
        if k == "eq":
            t = self.pick([INT, INT, BOOL] + ([STR] if self.p["strings"] else []))
            op = "=" if t == INT else self.pick(["=", "!="])
            return ("cmp", BOOL, op, self.expr(t, sc, d, True), self.expr(t, sc, d, True))
        if k in ("and", "or"):
            return (k, BOOL, self.bool_expr(sc, d, True), self.bool_expr(sc, d, True))
        if k == "not":
            return ("not", BOOL, self.bool_expr(sc, d, True))
        if k == "in":
            if self.p["lists"]:
                lists = sc.of_type(TList(INT))
                coll = ("var", TList(INT), self.pick(lists)) if lists and self.chance(60) else \
                    ("list", TList(INT), [self.lit(INT) for _ in range(self.int(1, 3))])
                return ("in", BOOL, self.int_expr(sc, d, True), coll)
            return self.atom(BOOL, sc)
        if k == "call":
            return self.call_expr(BOOL, sc, d, self.cur_declared) or self.atom(BOOL, sc)
        return ("ifx", BOOL, self.bool_expr(sc, d, True), self.bool_expr(sc, d, False), self.bool_expr(sc, d, False))

    def opt_expr(self, ty, sc, depth, strong):
        inner = ty[1]
        opts = [(2, "none"), (3, "val")]
        if sc.of_type(ty):
            opts.append((3, "var"))
        k = self.weighted(opts)
        if k == "none":
            return ("none", ty)
        if k == "var":
            return ("var", ty, self.pick(sc.of_type(ty)))
        if self.p["no_falsy_left_of_default"]:
            # open finding: `x ? d` is emitted as `x or d`; keep optionals away from falsy non-None values
            self.excluded["no_falsy_left_of_default"] = self.excluded.get("no_falsy_left_of_default", 0) + 1
            if inner == INT:
                return ("lit", INT, self.int(1, 20))
            return ("lit", STR, self.pick([w for w in WORDS if w]))
        return self.expr(inner, sc, min(depth, 1), True)

    def list_expr(self, ty, sc, depth):
        if sc.of_type(ty) and self.chance(50):
            return ("var", ty, self.pick(sc.of_type(ty)))
        n = self.int(1, 4)
        return ("list", ty, [self.expr(ty[1], sc, min(depth, 1), True) for _ in range(n)])

    def cls_expr(self, ty, sc, depth):
        cname = ty[1]
        if sc.of_type(ty) and self.chance(50):
            return ("var", ty, self.pick(sc.of_type(ty)))
        fs = self.callable_funs(ty, False, self.cur_declared)
        if fs and self.chance(30):
            f = self.pick(fs)
            return ("call", ty, f["name"], self.call_args(f, sc, depth))
        return self.new_expr(cname, sc, depth)

    def new_expr(self, cname, sc, depth):
        c = self.classes[cname]
        params = [(n, t) for (n, t, _d) in c["init"]["params"]] if c.get("init") else [(n, t) for (n, t, isf) in c["args"]]
        args = [self.expr(t, sc, max(depth - 1, 0)) for (n, t) in params]
        return ("new", TCls(cname), cname, args)

    # -- weak/strong classification (for choosing whether a definition must be annotated) ------------
    @staticmethod
    def is_weak(e):
        return e[0] in ("neg", "ifx", "dflt", "hnd", "matchx", "none")

    # -- statements --------------------------------------------------------------------------------------
    cur_declared = ()

    def block(self, sc, ctx, n_min=1, n_max=4):
        out = []
        n = self.int(n_min, min(n_max, 2 if ctx.depth >= 1 else 3))
        for _ in range(n):
            out.extend(self.stmt(sc, ctx))
        return out

    def printable(self, sc):
        ts = [INT, INT, BOOL]
        if self.p["strings"]:
            ts.append(STR)
        if self.p["floats"]:
            ts.append(FLOAT)
        if self.p["lists"]:
            for t in (TList(INT), TList(STR)):
                if sc.of_type(t):
                    ts.append(t)
        return self.pick(ts)

    def stmt(self, sc, ctx):
        """-> list of statements (some kinds need a preparatory definition)."""
        self.cur_declared = ctx.declared
        allv = sc.all()
        self.stmt_budget -= 1
        if self.stmt_budget < 0:
            return self.s_print(sc, ctx) if self.chance(70) else self.s_def(sc, ctx)
        opts = [(6, "print"), (5, "def"), (2, "tower")]
        mut = [(n, t) for n, (t, m) in allv.items() if m and t in PRIMS]
        if mut:
            opts += [(3, "assign"), (2, "aug")]
        if ctx.depth < self.p["max_depth"]:
            opts += [(3, "if")]
            if self.p["loops"]:
                opts += [(2, "for_range"), (1, "while"), (1, "for_over")]
            if self.p["match"]:
                opts += [(2, "match")]
        if self.p["lists"] or self.p["strings"]:
            opts += [(1, "deftup")]
        if self.p["floats"]:
            opts += [(1, "def_sqrt")]
        if self.value_classes():
            opts += [(2, "defobj")]
            if self.obj_vars(sc, mutable_only=True):
                opts += [(2, "fassign"), (2, "mstmt")]
        procs = [f for f in self.funs.values() if f["ret"] is None and not f.get("hidden")
                 and all(self.covered(r, ctx.declared) or ctx.fun is None for r in f["raises"])]
        if procs:
            opts += [(2, "proc")]
        raising = [f for f in self.funs.values() if f["raises"] and not f.get("hidden")]
        if raising and self.p["handle"]:
            opts += [(3, "handle_def"), (2, "handle_stmt")]
            if ctx.fun is None:
                opts += [(1, "bare_raising")]
        if ctx.fun is not None:
            if ctx.depth < self.p["max_depth"]:
                opts += [(4, "early_return")]
        k = self.weighted(opts)
        if k in ("if", "for_range", "while", "for_over", "match", "handle_def", "handle_stmt", "early_return"):
            self.branch_budget -= 1
            if self.branch_budget < 0:
                k = "print"
        m = getattr(self, "s_" + k)
        return m(sc, ctx)

    def obj_vars(self, sc, mutable_only=False):
        return [(n, t) for n, (t, m) in sc.all().items()
                if is_cls(t) and t[1] in self.classes and t[1] not in self.excs and (m or not mutable_only)]

    def tower(self, sc, depth):
        """Arithmetic over small integers nested to the left AND to the right with operators of equal and different precedence:
        every grouping changes the value (the model parenthesises every nested operand, so the grouping is explicit)."""
        if depth <= 0:
            ints = sc.of_type(INT)
            if ints and self.chance(25):
                return ("var", INT, self.pick(ints))
            return ("lit", INT, self.int(2, 5))
        op = self.pick(["-", "-", "//", "^", "^", "mod", "+", "*"])
        left = self.tower(sc, depth - 1 if self.chance(70) else 0)
        if op == "^":
            # exponent: 2..3 or a small power of literals (never negative, values stay below 2^81)
            right = ("lit", INT, self.int(2, 3)) if self.chance(60) else ("bin", INT, "^", ("lit", INT, 2), ("lit", INT, self.int(1, 2)))
            if left[0] == "bin" and left[2] == "^" and left[3][0] == "bin":
                left = ("lit", INT, self.int(2, 3))
        elif op in ("//", "mod"):
            right = ("lit", INT, self.int(2, 7)) if self.chance(50) else ("bin", INT, "+", self.tower(sc, 0), ("lit", INT, 1))
        else:
            right = self.tower(sc, depth - 1 if self.chance(70) else 0)
        return ("bin", INT, op, left, right)

    def s_tower(self, sc, ctx):
        e = self.tower(sc, self.int(2, 3))
        if self.chance(30):
            name = self.fresh("v")
            sc.add(name, INT, False)
            return [("def", name, INT, False, self.chance(50), e), ("print", ("var", INT, name))]
        return [("print", e)]

    def s_print(self, sc, ctx):
        t = self.printable(sc)
        return [("print", self.expr(t, sc, None, True))]

    def s_def(self, sc, ctx):
        t = self.any_type(allow_cls=False)
        name = self.fresh("v")
        mutable = self.chance(60)
        e = self.expr(t, sc)
        annotated = True if (self.is_weak(e) or is_opt(t)) else self.chance(50)
        if is_list(t) and e[0] == "list":
            self.list_len[name] = len(e[2])
            mutable = False  # lists are never reassigned: indices stay in range
        style = None
        if e[0] == "ifx" and self.chance(30) and not self.is_weak(e[3]) and not self.is_weak(e[4]):
            style = "block"
        s = ("def", name, t, mutable, annotated, e) if style is None else ("def", name, t, mutable, annotated, e, style)
        sc.add(name, t, mutable)
        return [s]

    def s_def_sqrt(self, sc, ctx):
        # `sqrt` swallows everything to its right and cannot open a parenthesis: only as a whole initialiser
        name = self.fresh("v")
        arg = self.pick([("lit", INT, self.pick([0, 1, 4, 9, 16, 2, 10])), self.int_expr(sc, 0, True)])
        if arg[0] != "lit":
            arg = ("bin", INT, "*", arg, arg)
        sc.add(name, FLOAT, False)
        return [("def", name, FLOAT, False, True, ("sqrt", FLOAT, arg))]

    def s_deftup(self, sc, ctx):
        a, b = self.fresh("v"), self.fresh("v")
        ta, tb = self.prim(), self.prim()
        s = ("deftup", [a, b], [self.expr(ta, sc, 1, True), self.expr(tb, sc, 1, True)])
        sc.add(a, ta, True)
        sc.add(b, tb, True)
        return [s]

    def s_defobj(self, sc, ctx):
        cname = self.pick(self.value_classes())
        name = self.fresh("o")
        mutable = self.chance(75)
        s = ("def", name, TCls(cname), mutable, self.chance(30), self.new_expr(cname, sc, 2))
        sc.add(name, TCls(cname), mutable)
        return [s]

    def assignable(self, sc, ctx):
        return [(n, t) for n, (t, m) in sc.all().items() if m and t in PRIMS]

    def s_assign(self, sc, ctx):
        n, t = self.pick(self.assignable(sc, ctx))
        return [("assign", n, self.expr(t, sc))]

    def s_aug(self, sc, ctx):
        cands = [(n, t) for n, t in self.assignable(sc, ctx) if t in (INT, FLOAT)]
        if not cands:
            return self.s_print(sc, ctx)
        n, t = self.pick(cands)
        if t == INT:
            op = self.pick(["+", "-", "*", "^"])
            e = ("lit", INT, self.int(0, 2)) if op == "^" else self.int_expr(sc, 1, False)
        else:
            op = self.pick(["+", "-", "*", "/"])
            e = ("lit", FLOAT, self.pick([2.0, 0.5, 4.0])) if op == "/" else self.float_expr(sc, 1, False)
        return [("aug", n, op, e)]

    def s_if(self, sc, ctx):
        c = self.bool_expr(sc, 2, True)
        th = self.block(Scope(sc), ctx.deeper(), 1, 3)
        el = self.block(Scope(sc), ctx.deeper(), 1, 3) if self.chance(60) else None
        return [("if", c, th, el, self.pick(["block", "block", "line"]))]

    def s_for_range(self, sc, ctx):
        var = self.fresh("i")
        kind = self.pick(["lit", "lit", "var", "compound"])
        lo_v = self.int(0, 5)
        span = self.int(0, 8)
        incl = self.chance(45)
        step_kind = self.pick(["none", "none", "pos", "neg"])
        if step_kind == "neg" and incl:
            incl = False  # descending inclusive ranges: meaning not documented, not generated
        pre = []
        if step_kind == "neg":
            lo_e, hi_e = ("lit", INT, lo_v + span), ("lit", INT, lo_v)
            step = ("neg", INT, ("lit", INT, self.int(1, 3)))
        else:
            lo_e, hi_e = ("lit", INT, lo_v), ("lit", INT, lo_v + span)
            step = ("lit", INT, self.int(1, 3)) if step_kind == "pos" else None
        if kind == "var":
            a, b = self.fresh("v"), self.fresh("v")
            pre = [("def", a, INT, False, self.chance(50), lo_e), ("def", b, INT, False, self.chance(50), hi_e)]
            sc.add(a, INT, False)
            sc.add(b, INT, False)
            lo_e, hi_e = ("var", INT, a), ("var", INT, b)
        elif kind == "compound":
            ints = sc.of_type(INT)
            if ints:
                v = ("var", INT, self.pick(ints))
                # lo + (v - v) keeps the length bounded while the bound is a compound expression
                hi_e = ("bin", INT, "+", hi_e, ("bin", INT, "-", v, v))
            else:
                hi_e = ("bin", INT, "+", hi_e, ("lit", INT, 0))
            lo_e = ("bin", INT, "*", lo_e, ("lit", INT, 1)) if self.chance(50) else lo_e
        body_sc = Scope(sc)
        body_sc.add(var, INT, False)
        body = self.block(body_sc, ctx.deeper(in_loop=True), 1, 2)
        return pre + [("for", var, ("range", lo_e, hi_e, incl, step), body, self.pick(["block", "line"]))]

    def s_for_over(self, sc, ctx):
        var = self.fresh("e")
        opts = []
        if self.p["lists"]:
            opts.append("list")
        if self.p["strings"]:
            opts.append("str")
        if not opts:
            return self.s_print(sc, ctx)
        k = self.pick(opts)
        if k == "list":
            et = self.pick([INT, STR] if self.p["strings"] else [INT])
            it = self.list_expr(TList(et), sc, 1)
        else:
            et = STR
            it = ("lit", STR, self.pick(["abc", "xy", "", "q"]))
            if sc.of_type(STR) and self.chance(40):
                it = ("var", STR, self.pick(sc.of_type(STR)))
        body_sc = Scope(sc)
        body_sc.add(var, et, False)
        body = self.block(body_sc, ctx.deeper(in_loop=True), 1, 2)
        return [("for", var, ("over", it), body, self.pick(["block", "line"]))]

    def s_while(self, sc, ctx):
        i = self.fresh("w")
        n = self.int(0, 4)
        pre = ("def", i, INT, True, self.chance(50), ("lit", INT, n))
        sc.add(i, INT, False)  # the measure is not assignable by generated code
        body = self.block(Scope(sc), ctx.deeper(in_loop=True), 1, 2)
        dec = self.pick([("assign", i, ("bin", INT, "-", ("var", INT, i), ("lit", INT, 1))),
                         ("aug", i, "-", ("lit", INT, 1))])
        return [pre, ("while", ("cmp", BOOL, ">", ("var", INT, i), ("lit", INT, 0)), body + [dec])]

    def tuple_match_head(self, sc):
        """subject (e1, e2[, e3]) and 1-3 distinct tuple patterns of literals and `_` (names inside tuple patterns are not bound
        by the checker and are left out); about half of the subject elements are literals the patterns like to repeat, so that
        second and third arms are reached"""
        ts = [self.pick([INT, INT, STR] if self.p["strings"] else [INT]) for _ in range(self.pick([2, 2, 3]))]
        known, elems = [], []
        for t in ts:
            if self.chance(50):
                l = self.lit(t)
                known.append(l[2])
                elems.append(l)
            else:
                known.append(None)
                elems.append(self.expr(t, sc, 1, True))
        pats, seen = [], set()
        for _ in range(self.int(1, 3)):
            pe = []
            for t, kv in zip(ts, known):
                if self.chance(35):
                    pe.append(("wild",))
                elif kv is not None and self.chance(60):
                    pe.append(("lit", t, kv))
                else:
                    pe.append(("lit", t, self.lit(t)[2]))
            if repr(pe) in seen or all(q[0] == "wild" for q in pe):
                continue
            seen.add(repr(pe))
            pats.append(("ptup", pe))
        return ("tup", None, elems), pats

    def s_match(self, sc, ctx):
        if self.p.get("tuple_patterns", True) and self.chance(30):
            subj, pats = self.tuple_match_head(sc)
            arms = [(pat, self.block(Scope(sc), ctx.deeper(), 1, 2)) for pat in pats]
            if self.chance(60) or not arms:
                arms.append((self.pick([("wild",), ("ptup", [("wild",)] * len(subj[2]))]), self.block(Scope(sc), ctx.deeper(), 1, 2)))
            return [("match", subj, arms)]
        t = self.pick([INT, INT, STR] if self.p["strings"] else [INT])
        subj = self.expr(t, sc, 1, True)
        arms = []
        seen = set()
        for _ in range(self.int(1, 3)):
            l = self.lit(t)
            if l[2] in seen:
                continue
            seen.add(l[2])
            arms.append((("lit", t, l[2]), self.block(Scope(sc), ctx.deeper(), 1, 2)))
        last = self.pick(["wild", "bind", "none"])
        if last == "wild" or not arms:
            arms.append((("wild",), self.block(Scope(sc), ctx.deeper(), 1, 2)))
        elif last == "bind":
            b = self.fresh("m")
            bs = Scope(sc)
            if self.p["no_match_binding_in_float_op"]:
                # open finding F32: the verdict of programs that use a match binding in compound expressions varies
                # from run to run; the binding is printed (S3: the name is bound) and otherwise left alone
                self.excluded["no_match_binding_in_float_op"] = self.excluded.get("no_match_binding_in_float_op", 0) + 1
                arms.append((("bind", b), [("print", ("var", t, b))] + self.block(bs, ctx.deeper(), 0, 2)))
            else:
                bs.add(b, t, False)
                self.tainted.add(b)
                arms.append((("bind", b), self.block(bs, ctx.deeper(), 1, 2)))
        return [("match", subj, arms)]

    def s_fassign(self, sc, ctx):
        cands = []
        for n, t in self.obj_vars(sc, mutable_only=True):
            for fname, ft, fin in self.all_fields(t[1]):
                if not fin and ft in PRIMS:
                    cands.append((n, t, fname, ft))
        if not cands:
            return self.s_print(sc, ctx)
        n, t, fname, ft = self.pick(cands)
        recv = ("var", t, n)
        if ft in (INT,) and self.chance(30):
            return [("faug", recv, fname, self.pick(["+", "-", "*"]), self.int_expr(sc, 1, False))]
        return [("fassign", recv, fname, self.expr(ft, sc, 2))]

    def s_mstmt(self, sc, ctx):
        cands = []
        for n, t in self.obj_vars(sc, mutable_only=True):
            for m in self.all_methods(t[1]):
                if m["ret"] is None and not m["raises"]:
                    cands.append((n, t, m))
        if not cands:
            return self.s_print(sc, ctx)
        n, t, m = self.pick(cands)
        return [("expr", ("mcall", None, ("var", t, n), m["name"], self.call_args(m, sc, 2)))]

    def s_proc(self, sc, ctx):
        procs = [f for f in self.funs.values() if f["ret"] is None and not f.get("hidden")
                 and all(self.covered(r, ctx.declared) or ctx.fun is None for r in f["raises"])]
        f = self.pick(procs)
        return [("expr", ("call", None, f["name"], self.call_args(f, sc, 2)))]

    def raising_call(self, sc, want_value):
        fs = [f for f in self.funs.values() if f["raises"] and not f.get("hidden")
              and ((f["ret"] is not None and f["ret"] in PRIMS) if want_value else True)]
        if not fs:
            return None, None
        f = self.pick(fs)
        return f, ("call", f["ret"], f["name"], self.call_args(f, sc, 2))

    def arms_for(self, f, sc, ctx, value_ty):
        """Handler arms that cover every declared class of f (by the class itself or an ancestor)."""
        arms = []
        covered = set()
        for r in f["raises"]:
            if r in covered:
                continue
            choices = [r]
            a = self.excs.get(r)
            while a is not None:
                choices.append(a)
                a = self.excs.get(a)
            choices.append("Exception")
            cls = self.pick(choices)
            if any(cls == x[0] for x in arms):
                covered.add(r)
                continue
            # an ancestor arm placed earlier would shadow later arms; that is fine for S9 (first listed wins)
            # the arm may leave the error unnamed (`_: E => ..`): a different node in the emitted try/except
            var = "_" if self.chance(35) else self.fresh("err")
            asc = Scope(sc)
            body = self.block(asc, ctx.deeper(), 0, 2)
            if value_ty is None:
                val = None
                if not body:
                    body = [("print", ("lit", STR, "handled"))]
            elif ctx.fun is not None and ctx.fun["ret"] is None and self.chance(20):
                val = "return"
            elif ctx.fun is not None and ctx.fun["ret"] is not None and ctx.fun["ret"] in PRIMS and self.chance(20):
                val = ("retval", self.expr(ctx.fun["ret"], asc, 1, True))
            else:
                val = self.expr(value_ty, asc, 1, True)
            arms.append((cls, var, body, val))
            covered.add(r)
        # order: subclasses before ancestors is NOT enforced; the reference picks the first matching arm
        return arms

    def s_handle_def(self, sc, ctx):
        f, call = self.raising_call(sc, True)
        if f is None:
            return self.s_print(sc, ctx)
        name = self.fresh("h")
        arms = self.arms_for(f, sc, ctx, f["ret"])
        # arms written as 'return' statements are only legal inside functions (handled in arms_for)
        sc.add(name, f["ret"], False)
        return [("def", name, f["ret"], False, self.chance(50), ("hnd", f["ret"], call, arms))]

    def s_handle_stmt(self, sc, ctx):
        f, call = self.raising_call(sc, False)
        if f is None:
            return self.s_print(sc, ctx)
        arms = self.arms_for(f, sc, ctx, None)
        return [("handle", call, arms)]

    def s_bare_raising(self, sc, ctx):
        f, call = self.raising_call(sc, False)
        if f is None:
            return self.s_print(sc, ctx)
        if f["ret"] is not None and f["ret"] in PRIMS and self.chance(50):
            return [("print", call)]
        return [("expr", call)]

    def s_early_return(self, sc, ctx):
        c = self.bool_expr(sc, 2, True)
        ret = ctx.fun["ret"]
        val = None if ret is None else self.expr(ret, sc, 1, True)
        # the other branch: absent, a statement, or a return of its own (one-line and block form; the if is never the last
        # statement of the function because more statements or the tail follow)
        k = self.pick(["none", "none", "print", "ret", "value", "value"]) if ret is not None else self.pick(["none", "none", "print"])
        if k == "none":
            el = None
        elif k == "print":
            el = [("print", self.expr(self.printable(sc), sc, 1, True))]
        elif k == "value":
            # a value whose result is discarded (an expression statement) of the function's return type
            el = [("expr", self.atom(ret, sc) if ret in PRIMS else self.expr(ret, sc, 0, True))]
        else:
            el = [("ret", self.expr(ret, sc, 1, True))]
        if el is not None and self.chance(30):
            return [("if", ("not", BOOL, c), el, [("ret", val)], self.pick(["block", "line", "line"]))]
        return [("if", c, [("ret", val)], el, self.pick(["block", "line", "line"]))]

    # -- definitions -----------------------------------------------------------------------------------------
    def gen_exceptions(self):
        n = self.int(1, 3)
        for _ in range(n):
            name = self.fresh("Err")
            parent = self.pick(["Exception"] + [e for e in self.excs if self.depth_of(e) < 3])
            self.excs[name] = parent if parent != "Exception" else None
            c = {"name": name, "args": [("msg", STR, False)], "parent": (parent, ["msg"]), "fields": [], "methods": []}
            self.classes[name] = c
            self.items.append(("class", c))

    def depth_of(self, e):
        d = 1
        while self.excs.get(e) is not None:
            e = self.excs[e]
            d += 1
        return d

    def gen_class_explicit_init(self):
        """A base class with Str fields and a child with an EXPLICIT constructor: the parent gets literal arguments, the
        constructor body reads and overrides fields the parent's constructor sets (S7: parents run first)."""
        base = self.fresh("C")
        nb = self.int(1, 2)
        bargs = [(self.fresh("f"), STR, True) for _ in range(nb)]
        cb = {"name": base, "args": bargs, "parent": None, "fields": [], "methods": []}
        self.classes[base] = cb
        self.items.append(("class", cb))
        name = self.fresh("C")
        lits = ['"%s"' % self.pick([w for w in WORDS if w and '"' not in w]) for _ in range(nb)]
        c = {"name": name, "args": [], "parent": (base, lits), "fields": [], "methods": [], "init": None}
        own = self.fresh("g")
        c["fields"].append((own, INT, self.lit(INT), False))
        self.classes[name] = c
        sc = Scope()
        sc.add("self", TCls(name), True)
        params = []
        for _ in range(self.int(0, 2)):
            pn, pt = self.fresh("p"), self.pick([INT, STR])
            params.append((pn, pt, None))
            sc.add(pn, pt, False)
        recv = ("var", TCls(name), "self")
        body = []
        for _ in range(self.int(1, 3)):
            k = self.pick(["own", "read_parent", "override_parent", "print_parent"])
            f0 = self.pick(bargs)[0]
            if k == "own":
                body.append(("fassign", recv, own, self.int_expr(sc, 1, False)))
            elif k == "read_parent":
                body.append(("fassign", recv, f0, ("bin", STR, "+", ("field", STR, recv, f0), self.str_expr(sc, 1, True))))
            elif k == "override_parent":
                body.append(("fassign", recv, f0, self.str_expr(sc, 1, False)))
            else:
                body.append(("print", ("field", STR, recv, f0)))
        c["init"] = {"params": params, "body": body}
        if self.chance(50):
            c["methods"].append(self.gen_method(name))
        self.items.append(("class", c))

    def gen_class(self):
        if self.p["strings"] and self.p.get("explicit_init", True) and self.chance(25):
            return self.gen_class_explicit_init()
        name = self.fresh("C")
        parent = None
        bases = [c for c in self.value_classes() if len(self.classes[c]["args"]) <= 2 and not self.classes[c].get("init")]
        args = []
        if bases and self.chance(35):
            pname = self.pick(bases)
            pc = self.classes[pname]
            # parent constructor arguments may only be identifiers (or string literals)
            pargs = []
            for (pn, pt, _f) in pc["args"]:
                an = self.fresh("a")
                args.append((an, pt, False))
                pargs.append(an)
            parent = (pname, pargs if pargs else None)
        for _ in range(self.int(0 if parent else 1, 2)):
            args.append((self.fresh("f"), self.pick([INT, INT, STR, BOOL] if self.p["strings"] else [INT, BOOL]),
                         self.chance(75)))
        c = {"name": name, "args": args, "parent": parent, "fields": [], "methods": []}
        for _ in range(self.int(0, 2)):
            t = self.pick([INT, INT, STR, BOOL] if self.p["strings"] else [INT, BOOL])
            c["fields"].append((self.fresh("g"), t, self.lit(t), self.chance(20)))
        self.classes[name] = c
        # methods see their own fields through self
        for _ in range(self.int(0, 2)):
            c["methods"].append(self.gen_method(name))
        self.items.append(("class", c))

    def gen_method(self, cname):
        fields = self.all_fields(cname)
        self_fin = self.chance(50)
        sc = Scope()
        sc.add("self", TCls(cname), not self_fin)
        params = []
        for _ in range(self.int(0, 2)):
            pn, pt = self.fresh("p"), self.pick([INT, INT, STR, BOOL] if self.p["strings"] else [INT, BOOL])
            params.append((pn, pt, None))
            sc.add(pn, pt, False)
        name = self.fresh("m")
        if self_fin:
            ret = self.pick([INT, INT, STR, BOOL] if self.p["strings"] else [INT, BOOL])
            ctx = Ctx(fun={"ret": ret, "raises": []}, depth=1)
            self.cur_declared = ()
            body = []
            if self.chance(40):
                body = self.block(sc, ctx, 1, 2)
            tail = self.expr(ret, sc, 2)
            return {"name": name, "params": params, "ret": ret, "raises": [], "body": body, "tail": tail,
                    "oneline": self.chance(50), "self_fin": True}
        # mutator: assigns fields of self
        ctx = Ctx(fun={"ret": None, "raises": []}, depth=1)
        body = []
        muts = [(f, t) for (f, t, fin) in fields if not fin and t in PRIMS]
        for _ in range(self.int(1, 2)):
            if muts:
                f, t = self.pick(muts)
                recv = ("var", TCls(cname), "self")
                if t == INT and self.chance(40):
                    body.append(("faug", recv, f, self.pick(["+", "-", "*"]), self.int_expr(sc, 1, False)))
                else:
                    body.append(("fassign", recv, f, self.expr(t, sc, 2)))
            else:
                body.append(("print", self.expr(INT, sc, 1, True)))
        if self.chance(30):
            body.extend(self.block(sc, ctx, 1, 1))
        return {"name": name, "params": params, "ret": None, "raises": [], "body": body, "tail": None,
                "oneline": self.chance(50), "self_fin": False}

    def gen_function(self):
        name = self.fresh("fn")
        sc = Scope()
        params = []
        npar = self.int(0, 3)
        ndef = self.int(0, npar) if self.chance(40) else 0
        for i in range(npar):
            pn = self.fresh("p")
            pt = self.any_type(allow_opt=False, allow_list=False) if self.chance(85) else self.any_type()
            d = None
            if i >= npar - ndef and pt in PRIMS:
                d = self.lit(pt)
            elif i >= npar - ndef:
                ndef = 0  # defaults must be trailing; stop giving defaults
                params = [(n, t, None) for (n, t, _d) in params]
            params.append((pn, pt, d))
            sc.add(pn, pt, pt in PRIMS)
        # defaults only on a suffix of the parameter list
        seen_default = False
        fixed = []
        for (pn, pt, d) in params:
            if d is not None:
                seen_default = True
            elif seen_default:
                d = self.lit(pt) if pt in PRIMS else None
                if d is None:
                    fixed = [(n, t, None) for (n, t, _d) in fixed]
                    seen_default = False
            fixed.append((pn, pt, d))
        params = fixed
        ret = self.pick([None, INT, INT, INT, BOOL] + ([STR] if self.p["strings"] else []) +
                        ([FLOAT] if self.p["floats"] else []))
        if self.value_classes() and self.chance(10):
            ret = TCls(self.pick(self.value_classes()))
        # a function whose value is a handled call of an earlier raising function (handle as tail): its return type follows
        wrap = [g for g in self.funs.values() if g["raises"] and g["ret"] in PRIMS and not g.get("hidden")]
        if wrap and self.p["handle"] and self.chance(30):
            ret = self.pick(wrap)["ret"]
        raises = []
        if self.excs and self.p["exceptions"] and self.chance(45):
            raises = [self.pick(list(self.excs))]
            if self.chance(25):
                r2 = self.pick(list(self.excs))
                if r2 not in raises:
                    raises.append(r2)
        f = {"name": name, "params": params, "ret": ret, "raises": raises, "body": [], "tail": None,
             "oneline": False}
        ctx = Ctx(fun=f, depth=1, declared=tuple(raises))
        self.cur_declared = ctx.declared
        body = []
        for r in raises:
            c = self.bool_expr(sc, 2, True)
            body.append(("if", c, [("raise", r, self.pick(["bad", "neg", "oops"]))], None, self.pick(["line", "block"])))
        if self.chance(70):
            body.extend(self.block(sc, ctx, 1, 3))
        tail = None
        if ret is not None:
            tail = self.gen_tail(ret, sc, ctx, 2)
            f["oneline"] = not body and self.chance(60)
        elif not body:
            body = [("print", self.expr(INT, sc, 1, True))]
            f["oneline"] = self.chance(50)
        elif self.chance(15):
            tail = self.expr(INT, sc, 1, True)  # S6: last expression of an untyped function is not returned
        f["body"], f["tail"] = body, tail
        self.funs[name] = f
        self.items.append(("fun", f))

    def gen_tail(self, ret, sc, ctx, depth):
        opts = [(6, "expr")]
        if depth > 0 and ret in PRIMS:
            opts += [(2, "iftail")]
            if self.p["match"]:
                opts += [(2, "matchtail")]
            if self.p["handle"] and [f for f in self.funs.values() if f["raises"] and f["ret"] == ret]:
                opts += [(9, "hndtail")]
        k = self.weighted(opts)
        if k != "expr":
            self.branch_budget -= 1
            if self.branch_budget < 0:
                k = "expr"
        if k == "expr":
            return self.expr(ret, sc, 2)
        if k == "iftail":
            c = self.bool_expr(sc, 2, True)
            s1, s2 = Scope(sc), Scope(sc)
            b1 = self.block(s1, ctx.deeper(), 0, 1)
            t1 = self.gen_tail(ret, s1, ctx.deeper(), depth - 1)
            b2 = self.block(s2, ctx.deeper(), 0, 1)
            t2 = self.gen_tail(ret, s2, ctx.deeper(), depth - 1)
            return ("iftail", c, (b1, t1), (b2, t2))
        if k == "matchtail" and self.p.get("tuple_patterns", True) and self.chance(30):
            subj, pats = self.tuple_match_head(sc)
            arms = []
            for pat in pats + [("wild",)]:
                s1 = Scope(sc)
                arms.append((pat, (self.block(s1, ctx.deeper(), 0, 1), self.gen_tail(ret, s1, ctx.deeper(), 0))))
            return ("matchtail", subj, arms)
        if k == "matchtail":
            t = INT
            subj = self.expr(t, sc, 1, True)
            arms = []
            seen = set()
            for _ in range(self.int(1, 2)):
                l = self.lit(t)
                if l[2] in seen:
                    continue
                seen.add(l[2])
                s1 = Scope(sc)
                arms.append((("lit", t, l[2]), (self.block(s1, ctx.deeper(), 0, 1), self.gen_tail(ret, s1, ctx.deeper(), 0))))
            if self.chance(50):
                b = self.fresh("m")
                s1 = Scope(sc)
                if self.p["no_match_binding_in_float_op"]:
                    self.excluded["no_match_binding_in_float_op"] = self.excluded.get("no_match_binding_in_float_op", 0) + 1
                    arms.append((("bind", b), ([("print", ("var", t, b))] + self.block(s1, ctx.deeper(), 0, 1),
                                               self.gen_tail(ret, s1, ctx.deeper(), 0))))
                else:
                    s1.add(b, t, False)
                    self.tainted.add(b)
                    arms.append((("bind", b), (self.block(s1, ctx.deeper(), 0, 1), self.gen_tail(ret, s1, ctx.deeper(), 0))))
            else:
                s1 = Scope(sc)
                arms.append((("wild",), (self.block(s1, ctx.deeper(), 0, 1), self.gen_tail(ret, s1, ctx.deeper(), 0))))
            return ("matchtail", subj, arms)
        fs = [f for f in self.funs.values() if f["raises"] and f["ret"] == ret]
        f = self.pick(fs)
        call = ("call", ret, f["name"], self.call_args(f, sc, 2))
        return ("hndtail", call, self.arms_for(f, sc, ctx, ret))

    # -- whole program --------------------------------------------------------------------------------------
    def program(self):
        # the checker's cost grows steeply with classes, branches and program length: many small programs, each with
        # a drawn subset of definitions, beat few large ones
        if self.p["exceptions"] and self.chance(55):
            self.gen_exceptions()
        if self.p["classes"]:
            for _ in range(self.pick([0, 0, 1, 1, 2])):
                self.gen_class()
        if self.p["functions"]:
            for _ in range(self.pick([0, 1, 1, 2, 3])):
                self.gen_function()
        sc = Scope()
        ctx = Ctx()
        n = self.int(2, self.p["max_main"])
        for _ in range(n):
            for s in self.stmt(sc, ctx):
                self.items.append(("stmt", s))
        return {"items": self.items, "excluded": self.excluded}


@st.composite
def programs(draw, profile=None):
    g = G(draw, profile)
    return g.program()
