"""C11 — the annotate option is semantically inert: it only adds annotations."""
import ast

from hypothesis import strategies as st

from pbt import inputs
from pbt.worker import outcome


class _Erase(ast.NodeTransformer):
    def visit_AnnAssign(self, node):
        self.generic_visit(node)
        if node.value is None:
            # a bare declaration `x: T` has no run-time effect besides evaluating T
            return None
        return ast.copy_location(ast.Assign(targets=[node.target], value=node.value, type_comment=None), node)

    def visit_arg(self, node):
        node.annotation = None
        return node

    def _fun(self, node):
        node.returns = None
        self.generic_visit(node)
        return node

    visit_FunctionDef = _fun
    visit_AsyncFunctionDef = _fun


def erase_annotations(src):
    """ast.dump of the module with variable/parameter/return annotations erased and the typing imports that are no
    longer referenced dropped. Raises SyntaxError if the module does not parse."""
    tree = ast.parse(src)
    tree = _Erase().visit(tree)
    used = set()
    for n in ast.walk(tree):
        if isinstance(n, ast.Name):
            used.add(n.id)
    body = []
    for st_ in tree.body:
        if isinstance(st_, ast.ImportFrom) and st_.module == "typing":
            st_.names = [a for a in st_.names if (a.asname or a.name) in used]
            if not st_.names:
                continue
        if isinstance(st_, ast.Import):
            st_.names = [a for a in st_.names if not (a.name == "typing" and (a.asname or "typing") not in used)]
            if not st_.names:
                continue
        body.append(st_)
    tree.body = body
    # an emptied block needs a pass to stay comparable
    for n in ast.walk(tree):
        for field in ("body", "orelse", "finalbody"):
            b = getattr(n, field, None)
            if isinstance(b, list) and not b and field == "body" and not isinstance(n, ast.Module):
                b.append(ast.Pass())
    return ast.dump(tree, include_attributes=False)


def count_annotations(src):
    n = 0
    for node in ast.walk(ast.parse(src)):
        if isinstance(node, ast.AnnAssign):
            n += 1
        elif isinstance(node, ast.arg) and node.annotation is not None:
            n += 1
        elif isinstance(node, (ast.FunctionDef, ast.AsyncFunctionDef)) and node.returns is not None:
            n += 1
    return n


class C11:
    id = "C11"
    cases = {"quick": 250, "thorough": 8000}
    rule = ("inputs: CoreGen programs, typed expression programs, every repository sample and /verif/pbt/seeds file "
            "(fixed list, valid and invalid), and 1-mutation variants of them. Each is transpiled with annotate off and on. "
            "Oracle: same verdict; on success either both outputs parse or neither does (neither: left to C02) and they are equal as ast.dump after erasing variable, "
            "parameter and return annotations and the typing imports nothing refers to any more. Non-trivial: accepted and "
            "the annotated output carries >=1 annotation; distinct by SHA-1 of the source.")
    assumptions = [
        "annotations are erased syntactically (AnnAssign -> Assign, arg/return annotations dropped, unused `typing` imports "
        "dropped); nothing else is normalised",
        "outputs that CPython cannot parse are left to C02",
    ]
    strict = False

    def strategy(self, tier, switches):
        return inputs.sources(kinds=("core", "core", "expr", "mut1", "wide", "wide", "api"))

    def fixed_cases(self, tier, switches):
        return inputs.all_seed_cases()

    def summarize(self, case):
        return {"gen": case.get("gen"), "src": case["src"][:800]}

    def check(self, worker, case, stats):
        src = case["src"]
        stats.inc("gen:" + case.get("gen", "?"))
        r0 = worker.transpile1(src, False)
        r1 = worker.transpile1(src, True)
        o0, o1 = outcome(r0), outcome(r1)
        if o0 not in ("ok", "err") or o1 not in ("ok", "err"):
            stats.inc("crash_left_to_C03")
            return None
        if o0 != o1:
            # is each setting's verdict stable at all? (an unstable verdict is C12's finding, not C11's)
            for annotate, first in ((False, o0), (True, o1)):
                rr = worker.call({"op": "transpile_rep", "files": [[src, None]], "dir": "", "annotate": annotate, "k": 12})
                if any(outcome(x) != first for x in rr.get("results", [])):
                    stats.inc("nondeterministic_left_to_C12")
                    return None
            return {"what": "verdict depends on the annotate flag: off=%s on=%s" % (o0, o1),
                    "diagnostics": (r0.get("err") or r1.get("err"))[:2]}
        if o0 == "err":
            stats.inc("rejected_both")
            return None
        stats.inc("accepted_both")
        p0, p1 = r0["ok"][0], r1["ok"][0]
        def parses(py):
            try:
                erase_annotations(py)
                return True
            except (SyntaxError, ValueError):
                return False
        ok0, ok1 = parses(p0), parses(p1)
        if not ok0 and not ok1:
            stats.inc("invalid_python_left_to_C02")
            return None
        if ok0 != ok1:
            # one setting gives a module CPython parses, the other does not: the flag changed more than annotations
            return {"what": "the output is valid Python only with annotate %s" % ("off" if ok0 else "on"),
                    "python_off": p0, "python_on": p1}
        d0, d1 = erase_annotations(p0), erase_annotations(p1)
        nann = count_annotations(p1)
        if nann:
            stats.mark_nontrivial({"src": src}, sample=self.summarize(case), key=case.get("gen"))
        if d0 != d1:
            return {"what": "outputs differ beyond annotations", "python_off": p0, "python_on": p1}
        return None
