"""Parser for Rust's (non-pretty) `{:?}` output, as far as derive(Debug) produces it, and the mapping from
mamba's parse tree (parse::ast::Node) to the Core-list vocabulary of pbt.coretree."""


class _P:
    def __init__(self, s):
        self.s = s
        self.i = 0

    def ws(self):
        while self.i < len(self.s) and self.s[self.i] in " \n\t":
            self.i += 1

    def peek(self):
        self.ws()
        return self.s[self.i] if self.i < len(self.s) else ""

    def eat(self, ch):
        self.ws()
        if not self.s.startswith(ch, self.i):
            raise ValueError("expected %r at %d: %r" % (ch, self.i, self.s[self.i:self.i + 30]))
        self.i += len(ch)

    def value(self):
        c = self.peek()
        if c == '"':
            return self.string()
        if c == "[":
            return self.seq("[", "]")
        if c == "(":
            return tuple(self.seq("(", ")"))
        if c == "{":  # set / map debug — not produced by the AST, treat as list
            return self.seq("{", "}")
        if c.isdigit() or c == "-":
            j = self.i
            while j < len(self.s) and (self.s[j].isdigit() or self.s[j] in "-._eE"):
                j += 1
            txt = self.s[self.i:j]
            self.i = j
            return int(txt) if txt.lstrip("-").isdigit() else float(txt)
        if c == "'":
            # char literal
            j = self.s.index("'", self.i + 2 if self.s[self.i + 1] == "\\" else self.i + 1)
            txt = self.s[self.i + 1:j]
            self.i = j + 1
            return txt
        # identifier
        j = self.i
        while j < len(self.s) and (self.s[j].isalnum() or self.s[j] in "_:"):
            j += 1
        name = self.s[self.i:j]
        if not name:
            raise ValueError("unexpected %r at %d" % (c, self.i))
        self.i = j
        nxt = self.peek()
        if nxt == "{":
            self.eat("{")
            fields = {}
            while self.peek() != "}":
                k = self.ident()
                self.eat(":")
                fields[k] = self.value()
                if self.peek() == ",":
                    self.eat(",")
            self.eat("}")
            return (name, fields)
        if nxt == "(":
            items = self.seq("(", ")")
            return (name, items)
        if name == "true":
            return True
        if name == "false":
            return False
        return (name, None)

    def ident(self):
        self.ws()
        j = self.i
        while j < len(self.s) and (self.s[j].isalnum() or self.s[j] == "_"):
            j += 1
        name = self.s[self.i:j]
        self.i = j
        return name

    def seq(self, a, b):
        self.eat(a)
        out = []
        while self.peek() != b:
            out.append(self.value())
            if self.peek() == ",":
                self.eat(",")
        self.eat(b)
        return out

    def string(self):
        assert self.s[self.i] == '"'
        i = self.i + 1
        out = []
        s = self.s
        while s[i] != '"':
            if s[i] == "\\":
                n = s[i + 1]
                if n == "n":
                    out.append("\n")
                elif n == "t":
                    out.append("\t")
                elif n == "r":
                    out.append("\r")
                elif n == "0":
                    out.append("\0")
                elif n == "u":
                    j = s.index("}", i)
                    out.append(chr(int(s[i + 3:j], 16)))
                    i = j - 1
                else:
                    out.append(n)
                i += 2
            else:
                out.append(s[i])
                i += 1
        self.i = i + 1
        return "".join(out)


def parse(text):
    p = _P(text)
    v = p.value()
    p.ws()
    if p.i != len(p.s):
        raise ValueError("trailing text at %d" % p.i)
    return v


def node_of(ast):
    """AST { pos, node } -> node"""
    name, fields = ast
    assert name == "AST", name
    return fields["node"]


def opt(v):
    """Option<Box<AST>> -> AST or None"""
    name, payload = v
    if name == "None":
        return None
    assert name == "Some"
    return payload[0]


BINARY = {"Add", "Sub", "Mul", "Div", "FDiv", "Mod", "Pow", "BAnd", "BOr", "BXOr", "BLShift", "BRShift", "Le", "Ge",
          "Leq", "Geq", "Is", "IsN", "Eq", "Neq", "And", "Or", "In"}
UNARY = {"AddU", "SubU", "Sqrt", "BOneCmpl", "Not"}


class Unsupported(Exception):
    pass


PY_TYPE = {"Int": "int", "Float": "float", "Str": "str", "Bool": "bool", "Complex": "complex"}


def _py_type(core):
    """Primitive type names are spelled the Python way in the output (documented mapping)."""
    if core[0] == "Id" and core[1] in PY_TYPE:
        return ["Id", PY_TYPE[core[1]]]
    return core


def to_core(ast):
    """mamba parse tree of an *expression* -> Core-list tree (what the generator is documented to emit for it)."""
    tag, f = node_of(ast)
    if tag == "Id":
        lit = f["lit"]
        if lit in ("True", "False"):
            return ["Bool", lit == "True"]
        if lit == "None":
            return ["None"]
        return ["Id", lit]
    if tag == "Int":
        return ["Int", f["lit"]]
    if tag == "Real":
        return ["Float", f["lit"]]
    if tag == "ENum":
        return ["ENum", f["num"], f["exp"] if f["exp"] else "0"]
    if tag == "Str":
        if f["expressions"]:
            raise Unsupported("interpolated string")
        return ["Str", f["lit"]]
    if tag in BINARY:
        return [tag, to_core(f["left"]), to_core(f["right"])]
    if tag in UNARY:
        return [tag, to_core(f["expr"])]
    if tag == "IsA":
        return ["IsA", to_core(f["left"]), _py_type(to_core(f["right"]))]
    if tag == "IsNA":
        return ["Not", ["IsA", to_core(f["left"]), _py_type(to_core(f["right"]))]]
    if tag == "Question":
        return ["Or", to_core(f["left"]), to_core(f["right"])]
    if tag == "IfElse":
        el = opt(f["el"])
        if el is None:
            raise Unsupported("if without else as expression")
        return ["Ternary", to_core(f["cond"]), to_core(f["then"]), to_core(el)]
    if tag == "FunctionCall":
        return ["FunctionCall", to_core(f["name"]), [to_core(a) for a in f["args"]]]
    if tag == "PropertyCall":
        return ["PropertyCall", to_core(f["instance"]), to_core(f["property"])]
    if tag == "Index":
        return ["Index", to_core(f["item"]), to_core(f["range"])]
    if tag in ("Tuple", "List", "Set"):
        return [tag, [to_core(e) for e in f["elements"]]]
    if tag == "Range" or tag == "Slice":
        step = opt(f["step"])
        to = to_core(f["to"])
        if tag == "Range" and f["inclusive"]:
            to = ["Add", to, ["Int", "1"]]
        if tag == "Slice" and not f["inclusive"]:
            to = ["Sub", to, ["Int", "1"]]
        return ["FunctionCall", ["Id", "range" if tag == "Range" else "slice"],
                [to_core(f["from"]), to, to_core(step) if step is not None else ["Int", "1"]]]
    if tag == "AnonFun":
        args = []
        for a in f["args"]:
            atag, af = node_of(a)
            if atag == "FunArg":
                args.append(to_core(af["var"]))
            elif atag == "ExpressionType":
                args.append(to_core(af["expr"]))
            else:
                args.append(to_core(a))
        return ["AnonFun", args, to_core(f["body"])]
    raise Unsupported(tag)
