"""Core-language model: a small typed language whose every construct has a documented Mamba spelling.

Three things live here and nothing of it looks at mamba's output:
  * the tree vocabulary (plain tuples),
  * the renderer to Mamba text,
  * the reference interpreter that gives a tree its meaning (printed lines + class of the uncaught exception).

Semantic assumptions (each grounded in README / docs/features / docs/spec or forced by the stub files):
  S1  operators mean CPython's operators on int/float/str/bool ('^' -> **, 'mod' -> %, '//', '/', '=' -> ==)
  S2  a .. b excludes b, a ..= b includes b, a second '..' gives the step
  S3  if/match pick the first matching branch/arm; '_' and a bare name match anything, the name is bound
  S4  while/for loop as documented
  S5  a function with a declared return type returns its last expression; 'return e' returns
  S6  a function without return type returns nothing
  S7  def-marked class arguments are fields; all class arguments are constructor parameters in order; the parent
      constructor runs before own assignments
  S8  body fields with initialiser exist on every instance with that value
  S9  raise E(..) raises; 'x handle' runs the arm of the first listed class that is the raised class or an ancestor;
      the arm's last expression is the value when used as initialiser
  S10 e ? d is e unless e is None
  S11 "{e}" interpolates str(e)
  S12 explicit parentheses group

Expressions: (kind, type, ...)        Statements: (kind, ...)
"""

INT, FLOAT, STR, BOOL = "Int", "Float", "Str", "Bool"
PRIMS = (INT, FLOAT, STR, BOOL)


def TList(t):
    return ("List", t)


def TOpt(t):
    return ("Opt", t)


def TCls(n):
    return ("Cls", n)


def is_opt(t):
    return isinstance(t, tuple) and t[0] == "Opt"


def is_list(t):
    return isinstance(t, tuple) and t[0] == "List"


def is_cls(t):
    return isinstance(t, tuple) and t[0] == "Cls"


def ty_str(t):
    if isinstance(t, str):
        return t
    if t[0] == "List":
        return "List[%s]" % ty_str(t[1])
    if t[0] == "Set":
        return "Set[%s]" % ty_str(t[1])
    if t[0] == "Opt":
        return ty_str(t[1]) + "?"
    if t[0] == "Cls":
        return t[1]
    if t[0] == "Fun":
        return "(%s) -> %s" % (", ".join(ty_str(a) for a in t[1]), ty_str(t[2]))
    raise ValueError(t)


# ------------------------------------------------------------------------------------------------
# rendering
# ------------------------------------------------------------------------------------------------
def lit_str(ty, v):
    if ty == BOOL:
        return "True" if v else "False"
    if ty == STR:
        return '"' + v + '"'
    if ty == FLOAT:
        return repr(float(v))
    return str(v)


ATOMIC = {"lit", "var", "call", "new", "mcall", "field", "index", "list", "fstr", "conv", "none", "set"}


def rx(e, top=False):
    """Render expression. Every nested non-atomic operand is parenthesised (S12), `top` suppresses the outer pair."""
    k = e[0]
    if k == "lit":
        s = lit_str(e[1], e[2])
        return s
    if k == "none":
        return "None"
    if k == "var":
        return e[2]
    if k == "tup":
        return "(%s)" % ", ".join(rx(x, True) for x in e[2])
    if k == "bin":
        s = "%s %s %s" % (rx(e[3]), e[2], rx(e[4]))
    elif k == "cmp":
        s = "%s %s %s" % (rx(e[3]), e[2], rx(e[4]))
    elif k in ("and", "or"):
        s = "%s %s %s" % (rx(e[2]), k, rx(e[3]))
    elif k == "not":
        s = "not %s" % rx(e[2])
    elif k == "neg":
        s = "-%s" % rx(e[2])
    elif k == "ifx":
        s = "if %s then %s else %s" % (rx(e[2], True), rx(e[3]), rx(e[4]))
    elif k == "call":
        return "%s(%s)" % (e[2], ", ".join(rx(a, True) for a in e[3]))
    elif k == "new":
        return "%s(%s)" % (e[2], ", ".join(rx(a, True) for a in e[3]))
    elif k == "mcall":
        return "%s.%s(%s)" % (rx(e[2]), e[3], ", ".join(rx(a, True) for a in e[4]))
    elif k == "field":
        return "%s.%s" % (rx(e[2]), e[3])
    elif k == "index":
        return "%s[%s]" % (rx(e[2]), rx(e[3], True))
    elif k == "in":
        s = "%s in %s" % (rx(e[2]), rx(e[3]))
    elif k == "dflt":
        s = "%s ? %s" % (rx(e[2]), rx(e[3]))
    elif k == "fstr":
        return '"' + "".join(p if isinstance(p, str) else "{" + rx(p, True) + "}" for p in e[2]) + '"'
    elif k == "list":
        return "[" + ", ".join(rx(a, True) for a in e[2]) + "]"
    elif k == "set":
        return "{" + ", ".join(rx(a, True) for a in e[2]) + "}"
    elif k == "sqrt":
        return "sqrt %s" % rx(e[2])
    elif k == "conv":
        return "%s(%s)" % (e[2], rx(e[3], True))
    else:
        raise ValueError("rx: %r" % (k,))
    return s if top else "(" + s + ")"


IND = "    "


def render_block(stmts, ind, out):
    if not stmts:
        out.append(IND * ind + "pass")
    for s in stmts:
        render_stmt(s, ind, out)


def render_arms(arms, ind, out):
    for (exc, var, body, val) in arms:
        head = IND * ind + "%s: %s =>" % (var, exc)
        lines = []
        render_block(body, ind + 1, lines) if body else None
        if val is not None:
            if val == "return":
                lines.append(IND * (ind + 1) + "return")
            elif val[0] == "retval":
                lines.append(IND * (ind + 1) + "return " + rx(val[1], True))
            else:
                lines.append(IND * (ind + 1) + rx(val, True))
        if len(lines) == 1 and not body:
            out.append(head + " " + lines[0].strip())
        else:
            if not lines:
                lines = [IND * (ind + 1) + "pass"]
            out.append(head)
            out.extend(lines)


def render_stmt(s, ind, out):
    p = IND * ind
    k = s[0]
    if k == "print":
        out.append(p + "print(%s)" % rx(s[1], True))
    elif k == "def":
        name, ty, mutable, annotated, e = s[1:6]
        head = "def %s%s%s := " % ("" if mutable else "fin ", name, ": " + ty_str(ty) if annotated else "")
        if e[0] == "hnd":
            out.append(p + head + rx(e[2], True) + " handle")
            render_arms(e[3], ind + 1, out)
        elif e[0] == "matchx":
            out.append(p + head + "match %s" % rx(e[2], True))
            for pat, val in e[3]:
                out.append(IND * (ind + 1) + "%s => %s" % (pat_str(pat), rx(val, True)))
        elif e[0] == "ifx" and len(s) > 6 and s[6] == "block":
            out.append(p + head + "if %s then" % rx(e[2], True))
            out.append(IND * (ind + 1) + rx(e[3], True))
            out.append(p + "else")
            out.append(IND * (ind + 1) + rx(e[4], True))
        else:
            out.append(p + head + rx(e, True))
    elif k == "deftup":
        out.append(p + "def (%s) := (%s)" % (", ".join(s[1]), ", ".join(rx(e, True) for e in s[2])))
    elif k == "assign":
        out.append(p + "%s := %s" % (s[1], rx(s[2], True)))
    elif k == "aug":
        out.append(p + "%s %s= %s" % (s[1], s[2], rx(s[3], True)))
    elif k == "fassign":
        out.append(p + "%s.%s := %s" % (rx(s[1]), s[2], rx(s[3], True)))
    elif k == "faug":
        out.append(p + "%s.%s %s= %s" % (rx(s[1]), s[2], s[3], rx(s[4], True)))
    elif k == "if":
        _, c, th, el, style = s
        if style == "line" and len(th) == 1 and one_liner(th[0]) and (el is None or (len(el) == 1 and one_liner(el[0]))):
            a = []
            render_stmt(th[0], 0, a)
            line = p + "if %s then %s" % (rx(c, True), a[0])
            if el is not None:
                b = []
                render_stmt(el[0], 0, b)
                line += " else " + b[0]
            out.append(line)
        else:
            out.append(p + "if %s then" % rx(c, True))
            render_block(th, ind + 1, out)
            if el is not None:
                out.append(p + "else")
                render_block(el, ind + 1, out)
    elif k == "while":
        out.append(p + "while %s do" % rx(s[1], True))
        render_block(s[2], ind + 1, out)
    elif k == "for":
        _, var, it, body, style = s
        if it[0] == "range":
            _, lo, hi, incl, step = it
            its = "%s %s %s" % (rx(lo), "..=" if incl else "..", rx(hi))
            if step is not None:
                its += " .. %s" % rx(step)
        else:
            its = rx(it[1], True)
        if style == "line" and len(body) == 1 and one_liner(body[0]):
            a = []
            render_stmt(body[0], 0, a)
            out.append(p + "for %s in %s do %s" % (var, its, a[0]))
        else:
            out.append(p + "for %s in %s do" % (var, its))
            render_block(body, ind + 1, out)
    elif k == "match":
        out.append(p + "match %s" % rx(s[1], True))
        for pat, body in s[2]:
            head = IND * (ind + 1) + pat_str(pat) + " =>"
            if len(body) == 1 and one_liner(body[0]):
                a = []
                render_stmt(body[0], 0, a)
                out.append(head + " " + a[0])
            else:
                out.append(head)
                render_block(body, ind + 2, out)
    elif k == "expr":
        out.append(p + rx(s[1], True))
    elif k == "ret":
        out.append(p + ("return" if s[1] is None else "return %s" % rx(s[1], True)))
    elif k == "raise":
        out.append(p + 'raise %s("%s")' % (s[1], s[2]))
    elif k == "handle":
        out.append(p + rx(s[1], True) + " handle")
        render_arms(s[2], ind + 1, out)
    elif k == "pass":
        out.append(p + "pass")
    elif k == "comment":
        out.append(p + "# " + s[1])
    else:
        raise ValueError("render_stmt: %r" % (k,))


def one_liner(s):
    return s[0] in ("print", "assign", "aug", "fassign", "faug", "expr", "ret", "raise", "pass") or \
        (s[0] == "def" and s[5][0] not in ("hnd", "matchx") and len(s) == 6)


def pat_str(pat):
    if pat[0] == "lit":
        return lit_str(pat[1], pat[2])
    if pat[0] == "bind":
        return pat[1]
    if pat[0] == "ptup":
        return "(%s)" % ", ".join(pat_str(x) for x in pat[1])
    return "_"


def render_fun(f, ind, out, is_method=False):
    p = IND * ind
    params = []
    if is_method:
        params.append("fin self" if f.get("self_fin") else "self")
    for (n, t, d) in f["params"]:
        params.append("%s: %s%s" % (n, ty_str(t), " := " + rx(d, True) if d is not None else ""))
    head = "def %s(%s)" % (f["name"], ", ".join(params))
    if f["ret"] is not None:
        head += " -> " + ty_str(f["ret"])
    if f["raises"]:
        head += " raise [%s]" % ", ".join(f["raises"])
    body, tail = f["body"], f.get("tail")
    if not body and tail is not None and f.get("oneline"):
        if tail[0] == "matchtail":
            # README style: def f(x: Int) -> Int => match x, arms on the following lines
            lines = []
            render_tail(tail, ind, lines)
            out.append(p + head + " => " + lines[0].strip())
            out.extend(lines[1:])
            return
        if tail[0] not in ("iftail", "hndtail"):
            out.append(p + head + " => " + rx(tail, True))
            return
    if len(body) == 1 and tail is None and f.get("oneline") and one_liner(body[0]):
        a = []
        render_stmt(body[0], 0, a)
        out.append(p + head + " => " + a[0])
        return
    out.append(p + head + " =>")
    for s in body:
        render_stmt(s, ind + 1, out)
    if tail is not None:
        render_tail(tail, ind + 1, out)
    elif not body:
        out.append(IND * (ind + 1) + "pass")


def render_tail(tail, ind, out):
    """Last expression of a typed function; if/match tails are written as blocks."""
    p = IND * ind
    if tail[0] == "iftail":
        _, c, th, el = tail
        out.append(p + "if %s then" % rx(c, True))
        for s in th[0]:
            render_stmt(s, ind + 1, out)
        render_tail(th[1], ind + 1, out)
        out.append(p + "else")
        for s in el[0]:
            render_stmt(s, ind + 1, out)
        render_tail(el[1], ind + 1, out)
    elif tail[0] == "matchtail":
        _, e, arms = tail
        out.append(p + "match %s" % rx(e, True))
        for pat, (body, t) in arms:
            if not body and t[0] not in ("iftail", "matchtail", "hndtail"):
                out.append(IND * (ind + 1) + pat_str(pat) + " => " + rx(t, True))
            else:
                out.append(IND * (ind + 1) + pat_str(pat) + " =>")
                for s in body:
                    render_stmt(s, ind + 2, out)
                render_tail(t, ind + 2, out)
    elif tail[0] == "hndtail":
        _, call, arms = tail
        out.append(p + rx(call, True) + " handle")
        render_arms(arms, ind + 1, out)
    else:
        out.append(p + rx(tail, True))


def render_class(c, out):
    args = []
    for (n, t, is_field) in c["args"]:
        args.append("%s%s: %s" % ("def " if is_field else "", n, ty_str(t)))
    head = "class %s" % c["name"]
    if args or c.get("force_parens"):
        head += "(%s)" % ", ".join(args)
    if c.get("parent"):
        pname, pargs = c["parent"]
        head += ": %s" % pname
        if pargs is not None:
            head += "(%s)" % ", ".join(pargs)
    out.append(head)
    n = 0
    for (fname, t, init, fin) in c.get("fields", []):
        out.append(IND + "def %s%s: %s := %s" % ("fin " if fin else "", fname, ty_str(t), rx(init, True)))
        n += 1
    if c.get("init"):
        ini = c["init"]
        ps = ["self"] + ["%s: %s" % (pn, ty_str(pt)) for (pn, pt, _d) in ini["params"]]
        out.append(IND + "def __init__(%s) =>" % ", ".join(ps))
        render_block(ini["body"], 2, out)
    for m in c.get("methods", []):
        render_fun(m, 1, out, is_method=True)
        n += 1
    out.append("")


def render_program(prog):
    out = []
    for item in prog["items"]:
        if item[0] == "class":
            render_class(item[1], out)
        elif item[0] == "fun":
            render_fun(item[1], 0, out)
            out.append("")
        else:
            render_stmt(item[1], 0, out)
    return "\n".join(out) + "\n"


# ------------------------------------------------------------------------------------------------
# reference interpreter
# ------------------------------------------------------------------------------------------------
class Budget(Exception):
    pass


class Unsupported(Exception):
    """The interpreter met a value it refuses to give a meaning to (e.g. integer beyond the size bound)."""


class MambaExc(Exception):
    def __init__(self, cls, msg):
        Exception.__init__(self, msg)
        self.cls = cls


class _Return(Exception):
    def __init__(self, value):
        self.value = value


class Obj:
    def __init__(self, cls):
        self.cls = cls
        self.fields = {}


BIG = 10 ** 15


class Interp:
    def __init__(self, prog, max_steps=200000):
        self.prog = prog
        self.funs = {}
        self.classes = {}
        self.out = []
        self.steps = 0
        self.max_steps = max_steps
        self.executed = {}
        for item in prog["items"]:
            if item[0] == "fun":
                self.funs[item[1]["name"]] = item[1]
            elif item[0] == "class":
                self.classes[item[1]["name"]] = item[1]

    # -- helpers
    def tick(self, kind=None):
        self.steps += 1
        if self.steps > self.max_steps:
            raise Budget()
        if kind:
            self.executed[kind] = self.executed.get(kind, 0) + 1

    def is_exc_class(self, name):
        while name is not None:
            if name == "Exception":
                return True
            c = self.classes.get(name)
            if c is None or not c.get("parent"):
                return False
            name = c["parent"][0]
        return False

    def ancestors(self, name):
        out = []
        while name is not None:
            out.append(name)
            c = self.classes.get(name)
            name = c["parent"][0] if c is not None and c.get("parent") else None
        return out

    def check_num(self, v):
        if isinstance(v, bool):
            return v
        if isinstance(v, int) and abs(v) > BIG:
            raise Unsupported("integer too large")
        if isinstance(v, float) and (v != v or abs(v) > 1e100):
            raise Unsupported("float out of range")
        if isinstance(v, str) and len(v) > 2000:
            raise Unsupported("string too long")
        return v

    # -- expressions
    def ev(self, e, env):
        self.tick()
        k = e[0]
        if k == "lit":
            return e[2]
        if k == "none":
            return None
        if k == "var":
            return env.get(e[2])
        if k == "tup":
            return tuple(self.ev(x, env) for x in e[2])
        if k == "bin":
            a, b = self.ev(e[3], env), self.ev(e[4], env)
            op = e[2]
            self.tick("op:" + op)
            if op == "+":
                r = a + b
            elif op == "-":
                r = a - b
            elif op == "*":
                r = a * b
            elif op == "//":
                r = a // b
            elif op == "mod":
                r = a % b
            elif op == "/":
                r = a / b
            elif op == "^":
                if isinstance(b, int) and (b < 0 or b > 64):
                    raise Unsupported("exponent out of the bounded range")
                r = a ** b
            else:
                raise ValueError(op)
            return self.check_num(r)
        if k == "cmp":
            a, b = self.ev(e[3], env), self.ev(e[4], env)
            op = e[2]
            self.tick("cmp:" + op)
            return {"<": a < b, "<=": a <= b, ">": a > b, ">=": a >= b, "=": a == b, "!=": a != b}[op] \
                if op in ("=", "!=") else \
                (a < b if op == "<" else a <= b if op == "<=" else a > b if op == ">" else a >= b)
        if k == "and":
            self.tick("and")
            a = self.ev(e[2], env)
            return a and self.ev(e[3], env)
        if k == "or":
            self.tick("or")
            a = self.ev(e[2], env)
            return a or self.ev(e[3], env)
        if k == "not":
            self.tick("not")
            return not self.ev(e[2], env)
        if k == "neg":
            self.tick("neg")
            return -self.ev(e[2], env)
        if k == "ifx":
            self.tick("ifx")
            return self.ev(e[3], env) if self.ev(e[2], env) else self.ev(e[4], env)
        if k == "call":
            args = [self.ev(a, env) for a in e[3]]
            self.tick("call")
            return self.call_fun(self.funs[e[2]], args, None)
        if k == "new":
            args = [self.ev(a, env) for a in e[3]]
            self.tick("new")
            return self.construct(e[2], args)
        if k == "mcall":
            recv = self.ev(e[2], env)
            args = [self.ev(a, env) for a in e[4]]
            self.tick("mcall")
            m = self.find_method(recv.cls, e[3])
            return self.call_fun(m, args, recv)
        if k == "field":
            recv = self.ev(e[2], env)
            self.tick("field")
            return recv.fields[e[3]]
        if k == "index":
            lst, i = self.ev(e[2], env), self.ev(e[3], env)
            self.tick("index")
            return lst[i]
        if k == "in":
            a, c = self.ev(e[2], env), self.ev(e[3], env)
            self.tick("in")
            return a in c
        if k == "dflt":
            self.tick("dflt")
            a = self.ev(e[2], env)
            return a if a is not None else self.ev(e[3], env)
        if k == "fstr":
            self.tick("fstr")
            return self.check_num("".join(p if isinstance(p, str) else self.to_str(self.ev(p, env)) for p in e[2]))
        if k == "list":
            return [self.ev(a, env) for a in e[2]]
        if k == "set":
            return set(self.ev(a, env) for a in e[2])
        if k == "sqrt":
            import math
            self.tick("sqrt")
            return math.sqrt(self.ev(e[2], env))
        if k == "conv":
            v = self.ev(e[3], env)
            self.tick("conv:" + e[2])
            return {"Int": int, "Float": float, "Str": self.to_str, "Bool": bool}[e[2]](v)
        if k == "hnd":
            self.tick("handle_expr")
            return self.run_handle(e[2], e[3], env, want_value=True)
        if k == "matchx":
            self.tick("match_expr")
            v = self.ev(e[2], env)
            for pat, val in e[3]:
                if self.pat_matches(pat, v):
                    env2 = Env(env)
                    if pat[0] == "bind":
                        env2.define(pat[1], v)
                    return self.ev(val, env2)
            raise Unsupported("match expression without matching arm")
        raise ValueError("ev: %r" % (k,))

    def to_str(self, v):
        if isinstance(v, Obj):
            raise Unsupported("printing an object")
        if isinstance(v, set) and len(v) > 1:
            raise Unsupported("printing a set with several elements")
        return str(v)

    def note_arm(self, arms, n):
        """which arm of a match with tuple patterns was taken"""
        if any(a[0][0] == "ptup" for a in arms):
            self.tick("match_tuple_patterns")
            if any(a[0][0] == "ptup" and any(q[0] == "wild" for q in a[0][1]) for a in arms[:n]):
                self.tick("match_arm_after_tuple_pattern_with_wildcard")

    def pat_matches(self, pat, v):
        if pat[0] == "lit":
            return type(pat[2]) is type(v) and pat[2] == v
        if pat[0] == "ptup":
            return isinstance(v, tuple) and len(v) == len(pat[1]) and all(self.pat_matches(q, x) for q, x in zip(pat[1], v))
        return True

    def find_method(self, cname, mname):
        for a in self.ancestors(cname):
            c = self.classes.get(a)
            if c is None:
                break
            for m in c.get("methods", []):
                if m["name"] == mname:
                    return m
        raise KeyError(mname)

    def construct(self, cname, args):
        if self.is_exc_class(cname):
            return MambaExc(cname, args[0] if args else "")
        o = Obj(cname)
        self.init_obj(o, cname, args)
        return o

    def init_obj(self, o, cname, args):
        c = self.classes[cname]
        # body fields with initialiser exist on every instance (S8)
        for (fname, t, init, fin) in c.get("fields", []):
            o.fields.setdefault(fname, self.ev(init, Env(None)))
        local = dict(zip([a[0] for a in c["args"]], args))
        if c.get("parent") and c["parent"][0] in self.classes and c["parent"][1] is not None:
            pargs = []
            for pa in c["parent"][1]:
                pargs.append(local[pa] if pa in local else pa.strip('"'))
            self.init_obj(o, c["parent"][0], pargs)
        elif c.get("parent") and c["parent"][0] in self.classes:
            self.init_obj(o, c["parent"][0], [])
        for (n, t, is_field), v in zip(c["args"], args):
            if is_field:
                o.fields[n] = v
        if c.get("init"):
            env = Env(None)
            env.define("self", o)
            for (pn, _pt, _d), v in zip(c["init"]["params"], args):
                env.define(pn, v)
            try:
                self.exec_block(c["init"]["body"], env)
            except _Return:
                pass

    def call_fun(self, f, args, recv):
        env = Env(None)
        if recv is not None:
            env.define("self", recv)
        params = f["params"]
        for i, (n, t, d) in enumerate(params):
            if i < len(args):
                env.define(n, args[i])
            else:
                env.define(n, self.ev(d, Env(None)))
        try:
            self.exec_block(f["body"], env)
            if f.get("tail") is not None and f["ret"] is not None:
                return self.ev_tail(f["tail"], env)
            if f.get("tail") is not None:
                self.ev_tail(f["tail"], env)  # S6: evaluated, not returned
        except _Return as r:
            return r.value
        return None

    def ev_tail(self, tail, env):
        if tail[0] == "iftail":
            _, c, th, el = tail
            self.tick("if_tail")
            body, t = th if self.ev(c, env) else el
            env2 = Env(env)
            self.exec_block(body, env2)
            return self.ev_tail(t, env2)
        if tail[0] == "matchtail":
            _, e, arms = tail
            self.tick("match_tail")
            v = self.ev(e, env)
            for n, (pat, (body, t)) in enumerate(arms):
                if self.pat_matches(pat, v):
                    self.note_arm(arms, n)
                    env2 = Env(env)
                    if pat[0] == "bind":
                        env2.define(pat[1], v)
                    self.exec_block(body, env2)
                    return self.ev_tail(t, env2)
            raise Unsupported("match tail without matching arm")
        if tail[0] == "hndtail":
            self.tick("handle_tail")
            return self.run_handle(tail[1], tail[2], env, want_value=True)
        return self.ev(tail, env)

    def run_handle(self, call, arms, env, want_value):
        try:
            return self.ev(call, env)
        except MambaExc as ex:
            anc = self.ancestors(ex.cls)
            for (exc, var, body, val) in arms:
                if exc in anc or exc == "Exception":
                    self.tick("handler_run")
                    env2 = Env(env)
                    env2.define(var, ex)
                    self.exec_block(body, env2)
                    if val == "return":
                        raise _Return(None)
                    if isinstance(val, tuple) and val[0] == "retval":
                        raise _Return(self.ev(val[1], env2))
                    return self.ev(val, env2) if (want_value and val is not None) else None
            raise

    # -- statements
    def exec_block(self, stmts, env):
        for s in stmts:
            self.exec_stmt(s, env)

    def exec_stmt(self, s, env):
        self.tick()
        k = s[0]
        if k == "print":
            v = self.ev(s[1], env)
            self.tick("print")
            self.out.append(self.to_str(v))
        elif k == "def":
            self.tick("def")
            env.define(s[1], self.ev(s[5], env))
        elif k == "deftup":
            self.tick("deftup")
            vals = [self.ev(e, env) for e in s[2]]
            for n, v in zip(s[1], vals):
                env.define(n, v)
        elif k == "assign":
            self.tick("assign")
            env.set(s[1], self.ev(s[2], env))
        elif k == "aug":
            self.tick("aug:" + s[2])
            cur = env.get(s[1])
            v = self.ev(s[3], env)
            env.set(s[1], self.aug(cur, s[2], v))
        elif k == "fassign":
            o = self.ev(s[1], env)
            self.tick("fassign")
            o.fields[s[2]] = self.ev(s[3], env)
        elif k == "faug":
            o = self.ev(s[1], env)
            self.tick("faug:" + s[3])
            o.fields[s[2]] = self.aug(o.fields[s[2]], s[3], self.ev(s[4], env))
        elif k == "if":
            self.tick("if")
            if self.ev(s[1], env):
                self.exec_block(s[2], Env(env))
            elif s[3] is not None:
                self.exec_block(s[3], Env(env))
        elif k == "while":
            self.tick("while")
            while self.ev(s[1], env):
                self.exec_block(s[2], Env(env))
        elif k == "for":
            _, var, it, body, _style = s
            if it[0] == "range":
                _, lo, hi, incl, step = it
                lo, hi = self.ev(lo, env), self.ev(hi, env)
                st = self.ev(step, env) if step is not None else 1
                if st == 0:
                    raise Unsupported("zero step")
                self.tick("for_range:%s%s" % ("incl" if incl else "excl", "" if step is None else ("+step" if st > 0 else "-step")))
                # S2: inclusive adds the bound itself (in the direction of the step)
                seq = range(lo, hi + (1 if st > 0 else -1), st) if incl else range(lo, hi, st)
                if len(seq) > 200:
                    raise Unsupported("range too long")
            else:
                self.tick("for_over")
                seq = self.ev(it[1], env)
                if isinstance(seq, set):
                    raise Unsupported("iterating a set")
            for v in seq:
                env2 = Env(env)
                env2.define(var, v)
                self.exec_block(body, env2)
        elif k == "match":
            self.tick("match")
            v = self.ev(s[1], env)
            for n, (pat, body) in enumerate(s[2]):
                if self.pat_matches(pat, v):
                    self.note_arm(s[2], n)
                    env2 = Env(env)
                    if pat[0] == "bind":
                        env2.define(pat[1], v)
                    self.exec_block(body, env2)
                    break
        elif k == "expr":
            self.ev(s[1], env)
        elif k == "ret":
            self.tick("return")
            raise _Return(self.ev(s[1], env) if s[1] is not None else None)
        elif k == "raise":
            self.tick("raise")
            raise MambaExc(s[1], s[2])
        elif k == "handle":
            self.tick("handle_stmt")
            self.run_handle(s[1], s[2], env, want_value=False)
        elif k in ("pass", "comment"):
            pass
        else:
            raise ValueError("exec: %r" % (k,))

    def aug(self, cur, op, v):
        if op == "+":
            r = cur + v
        elif op == "-":
            r = cur - v
        elif op == "*":
            r = cur * v
        elif op == "/":
            r = cur / v
        elif op == "^":
            if isinstance(v, int) and (v < 0 or v > 64):
                raise Unsupported("exponent out of the bounded range")
            r = cur ** v
        else:
            raise ValueError(op)
        return self.check_num(r)

    def run(self):
        """-> dict(out=[lines], exc=class name or None) or raises Budget/Unsupported."""
        env = Env(None)
        exc = None
        try:
            for item in self.prog["items"]:
                if item[0] == "stmt":
                    self.exec_stmt(item[1], env)
        except MambaExc as ex:
            exc = ex.cls
        except ZeroDivisionError:
            exc = "ZeroDivisionError"
        except IndexError:
            exc = "IndexError"
        except (OverflowError, RecursionError):
            raise Unsupported("overflow / recursion depth in the reference")
        return {"out": self.out, "exc": exc, "steps": self.steps, "executed": self.executed}


class Env:
    def __init__(self, parent):
        self.parent = parent
        self.vars = {}

    def define(self, name, v):
        self.vars[name] = v

    def get(self, name):
        e = self
        while e is not None:
            if name in e.vars:
                return e.vars[name]
            e = e.parent
        raise Unsupported("model bug: read of undefined %s" % name)

    def set(self, name, v):
        e = self
        while e is not None:
            if name in e.vars:
                e.vars[name] = v
                return
            e = e.parent
        raise Unsupported("model bug: assignment to undefined %s" % name)
