"""C16 — emitted modules are self-contained: generator-used names are imported once, before use."""
import ast
import builtins
import symtable

from hypothesis import strategies as st

from pbt import widegen, apigen, inputs
from pbt.worker import outcome

SUPPORT = {"math": "math", "Optional": "typing", "Union": "typing", "Tuple": "typing", "Callable": "typing", "Any": "typing",
           "NewType": "typing", "ABC": "abc", "abstractmethod": "abc"}
BUILTINS = set(dir(builtins))

TYPE_FORMS = ["Int", "Str", "Int?", "Str?", "{Int, Str}", "(Int, Str)", "Any", "Int -> Int", "(Int, Str) -> Bool",
              "List[Int]", "Set[Str]", "(Int, (Str, Bool))", "{Int, Float}?", "List[(Int, Str)]", "(Int?, Str)"]
VALUE_FOR = {"Int": "1", "Str": '"s"', "Int?": "None", "Str?": '"t"', "{Int, Str}": "1", "(Int, Str)": '(1, "a")', "Any": "1",
             "List[Int]": "[1]", "Set[Str]": '{"a"}', "(Int, (Str, Bool))": '(1, ("a", True))', "{Int, Float}?": "None",
             "List[(Int, Str)]": '[(1, "a")]', "(Int?, Str)": '(None, "a")'}
USER_IMPORTS = [("import os", ["os"]), ("from os import path", ["path"]), ("from os import getcwd as gc", ["gc"]),
                ("import json as js", ["js"]), ("from collections import deque", ["deque"]),
                ("from os import path, sep", ["path", "sep"]), ("import sys", ["sys"])]


@st.composite
def support_programs(draw):
    """Programs in which every construct that needs a support import occurs at drawn positions."""
    n = [0]

    def fresh(p):
        n[0] += 1
        return "%s%d" % (p, n[0])

    lines = []
    user_names = []
    for imp, names in draw(st.lists(st.sampled_from(USER_IMPORTS), max_size=3, unique_by=lambda x: x[1][0])):
        if any(nm in user_names for nm in names):
            continue
        lines.append(imp)
        user_names += names
    k = draw(st.integers(2, 7))
    for _ in range(k):
        kind = draw(st.sampled_from(["var", "var", "sqrt_top", "fun", "fun_sqrt", "default_sqrt", "fstr_sqrt", "alias",
                                     "interface", "class", "method_sqrt", "callable_use"]))
        if kind == "var":
            t = draw(st.sampled_from([x for x in TYPE_FORMS if x in VALUE_FOR]))
            lines.append("def %s: %s := %s" % (fresh("v"), t, VALUE_FOR[t]))
        elif kind == "sqrt_top":
            lines.append("def %s: Float := sqrt %d" % (fresh("v"), draw(st.integers(0, 20))))
        elif kind == "fun":
            pt = draw(st.sampled_from(TYPE_FORMS))
            rt = draw(st.sampled_from([x for x in TYPE_FORMS if x in VALUE_FOR]))
            lines.append("def %s(%s: %s) -> %s => %s" % (fresh("f"), fresh("p"), pt, rt, VALUE_FOR[rt]))
        elif kind == "fun_sqrt":
            f, p = fresh("f"), fresh("p")
            lines += ["def %s(%s: Int) -> Float =>" % (f, p), "    def %s: Float := sqrt %s" % (fresh("q"), p),
                      "    %s" % ("q%d" % n[0])]
        elif kind == "default_sqrt":
            p = fresh("p")
            lines.append("def %s(%s: Float := sqrt 4) -> Float => %s" % (fresh("f"), p, p))
        elif kind == "fstr_sqrt":
            lines.append('def %s := "r={sqrt %d}"' % (fresh("s"), draw(st.integers(0, 9))))
        elif kind == "alias":
            lines.append("type %s: Int when self > %d" % (fresh("Pos"), draw(st.integers(0, 5))))
        elif kind == "interface":
            i, m = fresh("Iface"), fresh("m")
            rt = draw(st.sampled_from(["Int", "Int?", "(Int, Str)", "{Int, Str}"]))
            lines += ["type %s" % i, "    def %s(self) -> %s" % (m, rt)]
            if draw(st.booleans()):
                lines += ["class %s: %s" % (fresh("Impl"), i), "    def %s(self) -> %s => %s" % (m, rt, VALUE_FOR[rt])]
        elif kind == "class":
            c = fresh("C")
            at = draw(st.sampled_from([x for x in TYPE_FORMS if "->" not in x]))
            ft = draw(st.sampled_from([x for x in TYPE_FORMS if x in VALUE_FOR]))
            lines += ["class %s(def %s: %s)" % (c, fresh("a"), at), "    def %s: %s := %s" % (fresh("g"), ft, VALUE_FOR[ft])]
            if draw(st.booleans()):
                rt = draw(st.sampled_from([x for x in TYPE_FORMS if x in VALUE_FOR]))
                lines.append("    def %s(fin self, %s: %s) -> %s => %s" % (fresh("m"), fresh("p"),
                                                                       draw(st.sampled_from(TYPE_FORMS)), rt, VALUE_FOR[rt]))
        elif kind == "method_sqrt":
            c = fresh("C")
            lines += ["class %s(def %s: Int)" % (c, fresh("a")), "    def %s(fin self) -> Float =>" % fresh("m"),
                      "        def %s: Float := sqrt 2" % fresh("q"), "        q%d" % n[0]]
        else:
            f, g = fresh("f"), fresh("g")
            lines += ["def %s(%s: Int -> Int) -> Int => %s(1)" % (f, g, g), "def %s := %s(\\x: Int => x + 1)" % (fresh("v"), f)]
    return {"gen": "support", "src": "\n".join(lines) + "\n", "user_names": user_names,
            "user_imports": [l for l in lines if l.startswith(("import ", "from "))]}


def module_bindings(tree):
    """names bound at module level (anywhere in module-level blocks)"""
    bound = set()

    def targets(t):
        if isinstance(t, ast.Name):
            bound.add(t.id)
        elif isinstance(t, (ast.Tuple, ast.List)):
            for e in t.elts:
                targets(e)
        elif isinstance(t, ast.Starred):
            targets(t.value)

    def walk(stmts):
        for s in stmts:
            if isinstance(s, (ast.FunctionDef, ast.AsyncFunctionDef, ast.ClassDef)):
                bound.add(s.name)
            elif isinstance(s, ast.Import):
                for a in s.names:
                    bound.add((a.asname or a.name).split(".")[0])
            elif isinstance(s, ast.ImportFrom):
                for a in s.names:
                    bound.add(a.asname or a.name)
            elif isinstance(s, ast.Assign):
                for t in s.targets:
                    targets(t)
            elif isinstance(s, (ast.AnnAssign, ast.AugAssign)):
                targets(s.target)
            elif isinstance(s, (ast.For, ast.AsyncFor)):
                targets(s.target)
                walk(s.body)
                walk(s.orelse)
            elif isinstance(s, (ast.While, ast.If)):
                walk(s.body)
                walk(s.orelse)
            elif isinstance(s, (ast.With, ast.AsyncWith)):
                for it in s.items:
                    if it.optional_vars is not None:
                        targets(it.optional_vars)
                walk(s.body)
            elif isinstance(s, ast.Try):
                walk(s.body)
                for h in s.handlers:
                    if h.name:
                        bound.add(h.name)
                    walk(h.body)
                walk(s.orelse)
                walk(s.finalbody)
            elif isinstance(s, ast.Match):
                for c in s.cases:
                    for nnode in ast.walk(c.pattern):
                        if isinstance(nnode, (ast.MatchAs, ast.MatchStar)) and nnode.name:
                            bound.add(nnode.name)
                    walk(c.body)
        return bound

    return walk(tree.body)


def global_reads(src):
    """names that some scope of the module reads from the global scope (symtable: referenced and global or
    module-level), annotations included."""
    out = set()

    def visit(tab, top):
        for sym in tab.get_symbols():
            if not sym.is_referenced():
                continue
            if top:
                out.add(sym.get_name())
            elif sym.is_global() and tab.get_type() != "class":
                out.add(sym.get_name())
            elif tab.get_type() == "class" and (sym.is_global() or not (sym.is_assigned() or sym.is_namespace() or sym.is_imported())):
                if not sym.is_local() or sym.is_global():
                    out.add(sym.get_name())
        for ch in tab.get_children():
            visit(ch, False)

    visit(symtable.symtable(src, "<emitted>", "exec"), True)
    return out


def user_imports_of(src):
    """top-level import lines of a Mamba source that are also Python import statements"""
    out = []
    for line in src.split("\n"):
        if line.startswith(("import ", "from ")):
            try:
                ast.parse(line)
                out.append(line)
            except SyntaxError:
                pass
    return out


def judge_module(py, user_names, user_imports):
    tree = ast.parse(py)
    bound = module_bindings(tree)
    reads = global_reads(py)
    unbound = sorted(n for n in reads if n not in bound and n not in BUILTINS and n not in user_names)
    if unbound:
        return "names are read that nothing binds: %s" % unbound
    # support names: imported exactly once, before first mention
    importers = {}
    for i, s in enumerate(tree.body):
        if isinstance(s, ast.Import):
            for a in s.names:
                importers.setdefault(a.asname or a.name, []).append(i)
        elif isinstance(s, ast.ImportFrom):
            for a in s.names:
                importers.setdefault(a.asname or a.name, []).append(i)
    user_bound = {}
    for line in user_imports:
        ut = ast.parse(line).body[0]
        for a in ut.names:
            nm = a.asname or a.name
            user_bound[nm] = user_bound.get(nm, 0) + 1
    for name in SUPPORT:
        if name in user_names and name not in user_bound:
            continue
        first_use = None
        for i, s in enumerate(tree.body):
            if isinstance(s, (ast.Import, ast.ImportFrom)):
                continue
            if any(isinstance(x, ast.Name) and x.id == name for x in ast.walk(s)):
                first_use = i
                break
        if first_use is None:
            continue
        imps = importers.get(name, [])
        # the source may import the same name itself (reproduced unchanged, wherever it stands): then up to that many more
        if not (1 <= len(imps) <= 1 + user_bound.get(name, 0)):
            return "support name %s is used but imported %d times" % (name, len(imps))
        if min(imps) > first_use:
            return "support name %s is imported after its first use" % name
    # user imports reproduced unchanged
    have = set()
    for s in tree.body:
        if isinstance(s, ast.Import):
            for a in s.names:
                have.add(("import", None, a.name, a.asname))
        elif isinstance(s, ast.ImportFrom):
            for a in s.names:
                have.add(("from", s.module, a.name, a.asname))
    for line in user_imports:
        ut = ast.parse(line).body[0]
        for a in ut.names:
            key = ("import", None, a.name, a.asname) if isinstance(ut, ast.Import) else ("from", ut.module, a.name, a.asname)
            if key not in have:
                return "user import %r is not reproduced in the output" % line
    return None


class C16:
    id = "C16"
    cases = {"quick": 700, "thorough": 20000}
    rule = ("inputs: (support) programs in which every construct that needs a support import (sqrt at top level, in a function, in "
            "a method, as default value, inside an interpolated string; nullable, union, tuple, callable, Any and nested types as "
            "variable, parameter, return, field and class-argument types; type aliases; interfaces) occurs at drawn positions "
            "together with 0-3 user imports (plain, from, aliased); (api) API-shaped programs; (core) CoreGen programs; both annotate "
            "settings. Oracle: static analysis of the emitted module with ast + symtable: every name read from the global scope "
            "(annotations included) is bound at module level, is a builtin, or is a name the source imported; every support name "
            "that is mentioned is bound by exactly one import placed before the first statement that mentions it; user imports are "
            "reproduced with the same module, names and aliases. Non-trivial: the output mentions >=1 support name; distinct by "
            "SHA-1 of source+flag.")
    assumptions = ["symtable decides which scope a read resolves in; reads inside annotations count (CPython evaluates them)",
                   "generated sources do not themselves import math/typing/abc"]
    strict = False

    def strategy(self, tier, switches):
        sup = support_programs()
        api = apigen.programs().map(lambda p: {"gen": "api", "src": p["src"], "user_names": [], "user_imports": []})
        core = inputs.sources(kinds=("core",)).map(lambda c: dict(c, user_names=[], user_imports=[]))
        wide = widegen.programs().map(lambda c: dict(c, user_names=[], user_imports=user_imports_of(c["src"])))
        return st.tuples(st.one_of(sup, sup, sup, api, core, wide, wide), st.booleans()).map(lambda t: dict(t[0], annotate=t[1]))

    def summarize(self, case):
        return {"gen": case["gen"], "annotate": case["annotate"], "src": case["src"][:800]}

    def check(self, worker, case, stats):
        r = worker.transpile1(case["src"], case["annotate"])
        oc = outcome(r)
        stats.inc("gen:" + case["gen"])
        for sn in case.get("snippets", []):
            stats.inc("wide_snippet:" + sn)
        if oc != "ok":
            stats.inc("rejected" if oc == "err" else "crash_left_to_C03")
            if oc == "err" and case["gen"] == "support":
                stats.inc("reject_reason:" + r["err"][0].split("\n")[0][:50])
            return None
        stats.inc("accepted")
        py = r["ok"][0]
        try:
            msg = judge_module(py, set(case["user_names"]), case["user_imports"])
            tree = ast.parse(py)
        except SyntaxError:
            stats.inc("invalid_python_left_to_C02")
            return None
        used = [n for n in SUPPORT if any(isinstance(x, ast.Name) and x.id == n for x in ast.walk(tree))]
        for n in used:
            stats.inc("uses:" + n)
        if used:
            stats.mark_nontrivial({"src": case["src"], "a": case["annotate"]}, sample=self.summarize(case), key=tuple(sorted(used))[:2])
        if msg:
            return {"what": msg, "python": py}
        return None
