"""C10 — printed expressions keep their structure (precedence, grouping, parentheses)."""
import itertools

from hypothesis import strategies as st

import ast as pyast

from pbt import coretree as ct
from pbt import exprgen, rustdebug as rd
from pbt.worker import outcome

BATCH = 400


def judge_tree(core, text):
    """None or failure text. `text` is what mamba printed for `core`."""
    want = ct.expected(core)
    got = ct.parse_expr(text)
    if got != want:
        return "printed %r parses back to a different tree" % text.strip()
    return None


@st.composite
def _spec_strategy(draw, max_depth, budget=None):
    """Spec of a random tree: depth up to max_depth, at most ~16 constructor nodes."""
    if budget is None:
        budget = [16]
    if max_depth <= 0 or budget[0] <= 0:
        return None
    idx = draw(st.integers(0, len(ct.CTORS) - 1))
    budget[0] -= 1
    tag, k, _ = ct.CTORS[idx]
    kids = []
    for _ in range(k):
        if draw(st.integers(0, 9)) < 7:
            kids.append(draw(_spec_strategy(max_depth - 1, budget)))
        else:
            kids.append(None)
    return (idx, kids)


@st.composite
def _case(draw, tier):
    if draw(st.integers(0, 9)) < 6:
        prog = draw(exprgen.program(depth=draw(st.integers(1, 4))))
        return {"gen": "e2e", "src": prog["src"], "ctx": prog["ctx"], "ty": prog["ty"],
                "annotate": draw(st.booleans())}
    spec = draw(_spec_strategy(draw(st.integers(3, 7))))
    core = ct.build(spec, ct.Namer())
    return {"gen": "tree", "core": core, "depth": ct.spec_depth(spec)}


class C10:
    id = "C10"
    cases = {"quick": 1500, "thorough": 40000}
    rule = ("(enum, exhaustive) every Core expression tree made of a parent constructor, one slot filled with a child "
            "constructor (depth 2), every spine parent/slot/child/slot/grandchild (depth 3) and every two-operand parent "
            "with two compound children, over 49 constructors (23 binary operators, 4 unary, sqrt, isa, ternary, lambda, "
            "attribute, method call, call, index, tuple/list/set/dict, and the desugared shapes range(.., to + 1, ..), "
            "slice(.., to - 1, ..), not isinstance, `?` as or, E-notation) with fresh leaf names; (tree) random deeper "
            "trees (<=14 leaves) drawn by Hypothesis. Each tree is built in the worker from JSON and printed by mamba's "
            "Display for Core. Non-trivial: the tree has a compound operand (depth >= 2); distinct by SHA-1 of the tree. "
            "Oracle: ast.parse(printed text) normalised == the shape the table of DESIGN.md appendix A assigns to the tree "
            "(nested same-operator and/or flattened on both sides). (e2e) typed Mamba expressions with randomly placed "
            "(also missing) parentheses in 10 statement contexts (initialiser, argument, implicit return, condition, index, "
            "range bounds, reassignment, print), both annotate settings; expected tree = mamba's own parse of the text "
            "(worker op `parse`) mapped by the same table, compared with the expression found at the same site of the "
            "emitted module.")
    assumptions = [
        "CPython 3.11's ast.parse defines how Python groups the printed text",
        "and/or are compared after flattening nested same-operator chains (associative in value and evaluation order)",
        "leaf spellings avoid contested forms (negative literals, 1.real)",
    ]
    strict = False

    def strategy(self, tier, switches):
        return _case(tier)

    def fixed_cases(self, tier, switches):
        it = ct.enumerate_specs()
        while True:
            chunk = list(itertools.islice(it, BATCH))
            if not chunk:
                break
            yield {"gen": "enum", "specs": chunk}

    def coverage_extra(self, classes):
        return {"exhaustive_subspace": "all depth<=3 parent/slot/child(/slot/grandchild) combinations and all "
                                       "two-compound-children binaries over %d constructors: %d trees"
                                       % (len(ct.CTORS), classes.get("enum_trees", 0)),
                "exhaustive": False}

    def summarize(self, case):
        if case["gen"] == "enum":
            core = ct.build(_tuplify(case["specs"][len(case["specs"]) // 2]), ct.Namer())
            return {"gen": "enum", "example_tree": core}
        if case["gen"] == "e2e":
            return {"gen": "e2e", "ctx": case["ctx"], "annotate": case["annotate"],
                    "statement": case["src"][len(exprgen.PRELUDE):]}
        return case

    def check_e2e(self, worker, case, stats):
        stats.inc("e2e")
        src, ctx = case["src"], case["ctx"]
        r = worker.call({"op": "parse", "src": src})
        if "ast" not in r:
            stats.inc("e2e_unparsable")
            return None
        try:
            tree = rd.parse(r["ast"])
            stmts = rd.node_of(tree)[1]["statements"]
            want_core = mamba_site(stmts, ctx)
            want = ct.expected(want_core)
        except rd.Unsupported:
            stats.inc("e2e_unsupported_shape")
            return None
        t = worker.transpile1(src, case["annotate"])
        if "ok" not in t:
            stats.inc("e2e_rejected" if "err" in t else "e2e_crash_left_to_C03")
            return None
        stats.inc("e2e_accepted")
        stats.inc("e2e_ctx:" + ctx)
        py = t["ok"][0]
        try:
            mod = pyast.parse(py)
            got = ct.norm(python_site(mod, ctx))
        except SyntaxError:
            stats.inc("e2e_invalid_python_left_to_C02")
            return None
        except (LookupError, AttributeError, IndexError):
            # e.g. an if-expression initialiser that the generator turned into an if statement with assignments
            stats.inc("e2e_site_restructured")
            return None
        if _compound(want):
            stats.mark_nontrivial(case, key="e2e-" + ctx)
        if got != want:
            return {"what": "expression from source (%s context) is grouped differently in the emitted Python" % ctx,
                    "expression": case.get("expr") or src[len(exprgen.PRELUDE):], "python": py[-400:],
                    "expected": repr(want), "parsed": repr(got)}
        return None

    def check(self, worker, case, stats):
        if case["gen"] == "e2e":
            return self.check_e2e(worker, case, stats)
        if case["gen"] == "enum":
            cores = [ct.build(_tuplify(s), ct.Namer()) for s in case["specs"]]
            depths = [ct.spec_depth(_tuplify(s)) for s in case["specs"]]
            stats.evaluations += len(cores) - 1
        else:
            cores = [case["core"]]
            depths = [case.get("depth", 2)]
        r = worker.call({"op": "core_print", "cores": cores})
        if "texts" not in r:
            if outcome(r) in ("panic", "abort"):
                return {"what": "printer crashed: %s" % (r.get("panic") or r.get("abort")),
                        "replay_case": case}
            return {"inconclusive": True, "why": "core_print failed", "reply": r}
        for core, text, d in zip(cores, r["texts"], depths):
            if not isinstance(text, str):
                return {"inconclusive": True, "why": "builder error", "reply": text}
            stats.inc("enum_trees" if case["gen"] == "enum" else "random_trees")
            stats.inc("depth:%d" % min(d, 8))
            if d >= 2:
                single = {"gen": "tree", "core": core, "depth": d}
                stats.mark_nontrivial(single, key="%s-d%d" % (case["gen"], min(d, 4)))
            msg = judge_tree(core, text)
            if msg:
                return {"what": msg, "printed": text, "expected": repr(ct.expected(core)),
                        "parsed": repr(ct.parse_expr(text)),
                        "replay_case": {"gen": "tree", "core": core, "depth": d}}
        return None


def _tuplify(spec):
    if spec is None:
        return None
    return (spec[0], [_tuplify(k) for k in spec[1]])


def _compound(tree):
    """expected tree has an operator node with an operator/call child"""
    def is_op(t):
        return isinstance(t, tuple) and t and t[0] in ("BinOp", "UnaryOp", "BoolOp", "Compare", "IfExp", "Call",
                                                       "Subscript", "Attribute", "Lambda")

    def kids(t):
        for x in t[1:]:
            if isinstance(x, tuple):
                if x and isinstance(x[0], str):
                    yield x
                else:
                    for y in x:
                        if isinstance(y, tuple):
                            yield y
    return is_op(tree) and any(is_op(k) for k in kids(tree))


def mamba_site(stmts, ctx):
    """Core tree of the expression under test, read from mamba's own parse of the last statement."""
    tag, f = rd.node_of(stmts[-1])
    if ctx in ("init", "arg", "index"):
        e = rd.opt(f["expr"])
        if ctx == "init":
            return rd.to_core(e)
        etag, ef = rd.node_of(e)
        if ctx == "arg":
            return rd.to_core(ef["args"][0])
        return rd.to_core(ef["range"])
    if ctx == "ret":
        return rd.to_core(rd.opt(f["body"]))
    if ctx == "cond":
        return rd.to_core(f["cond"])
    if ctx in ("range_to", "range_from"):
        return rd.to_core(f["col"])
    if ctx == "reassign":
        return rd.to_core(f["right"])
    if ctx == "print":
        return rd.to_core(f["args"][0])
    raise LookupError(ctx)


def python_site(mod, ctx):
    last = mod.body[-1]
    if ctx in ("init", "arg", "index", "reassign"):
        if not isinstance(last, (pyast.Assign, pyast.AnnAssign)):
            raise LookupError("last statement is %s" % type(last).__name__)
        v = last.value
        if ctx == "arg":
            return v.args[0]
        if ctx == "index":
            return v.slice
        return v
    if ctx == "ret":
        if not isinstance(last, pyast.FunctionDef) or not isinstance(last.body[-1], pyast.Return):
            raise LookupError("no function with return at the end")
        return last.body[-1].value
    if ctx == "cond":
        if not isinstance(last, pyast.If):
            raise LookupError("last statement is %s" % type(last).__name__)
        return last.test
    if ctx in ("range_to", "range_from"):
        if not isinstance(last, pyast.For):
            raise LookupError("last statement is %s" % type(last).__name__)
        return last.iter
    if ctx == "print":
        return last.value.args[0]
    raise LookupError(ctx)
