"""C10 — printed expressions keep their structure (precedence, grouping, parentheses)."""
import itertools

from hypothesis import strategies as st

import ast as pyast

from pbt import coretree as ct
from pbt import exprgen, pyoracle, rustdebug as rd
from pbt.worker import outcome

BATCH = 400


def judge_tree(core, text):
    """None or failure text. `text` is what mamba printed for `core`."""
    want = ct.expected(core)
    got = ct.parse_expr(text)
    if got != want:
        return "printed %r parses back to a different tree" % text.strip()
    return None


@st.composite
def _spec_strategy(draw, max_depth, budget=None):
    """Spec of a random tree: depth up to max_depth, at most ~16 constructor nodes."""
    if budget is None:
        budget = [16]
    if max_depth <= 0 or budget[0] <= 0:
        return None
    idx = draw(st.integers(0, len(ct.CTORS) - 1))
    budget[0] -= 1
    tag, k, _ = ct.CTORS[idx]
    kids = []
    for _ in range(k):
        if draw(st.integers(0, 9)) < 7:
            kids.append(draw(_spec_strategy(max_depth - 1, budget)))
        else:
            kids.append(None)
    return (idx, kids)


# ---- nested collections in statement contexts (grouping that lives in the converter's state, not in the printer) ---------------
def _nest_type(draw, depth):
    k = draw(st.sampled_from(["int", "tup2", "tup2", "tup3", "list"])) if depth > 0 else "int"
    if k == "int":
        return "Int"
    if k == "list":
        return ("list", _nest_type(draw, depth - 1))
    return ("tup",) + tuple(_nest_type(draw, depth - 1) for _ in range(2 if k == "tup2" else 3))


def _ty_text(t):
    if t == "Int":
        return "Int"
    if t[0] == "list":
        return "List[%s]" % _ty_text(t[1])
    return "(%s)" % ", ".join(_ty_text(x) for x in t[1:])


def _nest_expr(draw, t):
    """-> (mamba text, python value) for names a=1, b=2"""
    if t == "Int":
        k = draw(st.sampled_from(["a", "b", "lit", "sum"]))
        if k == "lit":
            n = draw(st.integers(3, 9))
            return str(n), n
        if k == "sum":
            return "(a + b)", 3
        return k, {"a": 1, "b": 2}[k]
    if t[0] == "list":
        parts = [_nest_expr(draw, t[1]) for _ in range(draw(st.integers(1, 3)))]
        return "[%s]" % ", ".join(p[0] for p in parts), [p[1] for p in parts]
    parts = [_nest_expr(draw, x) for x in t[1:]]
    return "(%s)" % ", ".join(p[0] for p in parts), tuple(p[1] for p in parts)


@st.composite
def _nest_case(draw):
    t = _nest_type(draw, draw(st.integers(1, 3)))
    if t == "Int":
        t = ("tup", "Int", ("tup", "Int", "Int"))
    e, v = _nest_expr(draw, t)
    e2, v2 = _nest_expr(draw, t)
    ty = _ty_text(t)
    ctx = draw(st.sampled_from(["return", "return_after_stmt", "implicit", "print", "def", "argument", "return_call", "return_if",
                                "list_element", "reassign", "method_return", "dict_conditions"]))
    head = "def a := 1\ndef b := 2\ndef c := True\n"
    if ctx == "return":
        src = head + "def tf(a: Int, b: Int) -> %s =>\n    return %s\nprint(tf(1, 2))\n" % (ty, e)
        exp = [repr(v)]
    elif ctx == "return_after_stmt":
        src = head + "def tf(a: Int, b: Int) -> %s =>\n    print(0)\n    return %s\nprint(tf(1, 2))\n" % (ty, e)
        exp = ["0", repr(v)]
    elif ctx == "implicit":
        src = head + "def tf(a: Int, b: Int) -> %s => %s\nprint(tf(1, 2))\n" % (ty, e)
        exp = [repr(v)]
    elif ctx == "print":
        src = head + "print(%s)\n" % e
        exp = [repr(v)]
    elif ctx == "def":
        src = head + "def x: %s := %s\nprint(x)\n" % (ty, e)
        exp = [repr(v)]
    elif ctx == "argument":
        src = head + "def g(p: %s) -> %s => p\nprint(g(%s))\n" % (ty, ty, e)
        exp = [repr(v)]
    elif ctx == "return_call":
        src = head + "def g(p: %s) -> %s => p\ndef tf(a: Int, b: Int) -> %s =>\n    return g(%s)\nprint(tf(1, 2))\n" % (ty, ty, ty, e)
        exp = [repr(v)]
    elif ctx == "return_if":
        src = head + "def tf(a: Int, b: Int) -> %s =>\n    return if a > b then %s else %s\nprint(tf(1, 2))\n" % (ty, e, e2)
        exp = [repr(v2)]
    elif ctx == "list_element":
        src = head + "for q in [%s, %s] do print(q)\n" % (e, e2)
        exp = [repr(v), repr(v2)]
    elif ctx == "reassign":
        src = head + "def x: %s := %s\nx := %s\nprint(x)\n" % (ty, e, e2)
        exp = [repr(v2)]
    elif ctx == "method_return":
        src = head + "class KT(def k: Int)\n    def mt(fin self, a: Int, b: Int) -> %s =>\n        print(self.k)\n        return %s\nprint(KT(7).mt(1, 2))\n" % (ty, e)
        exp = ["7", repr(v)]
    else:
        # conditions of a dict / list / set builder: a disjunction next to other conditions must stay one condition
        lo, hi, m = draw(st.integers(1, 4)), draw(st.integers(4, 8)), draw(st.integers(2, 3))
        kind = draw(st.sampled_from(["dict", "list", "set"]))
        conds = ["qx > %d or qx < %d" % (hi, lo), "qx mod %d = 0" % m]
        if draw(st.booleans()):
            conds.reverse()
        vals = [q for q in range(0, 12) if (q > hi or q < lo) and q % m == 0]
        body = {"dict": "{qx => qx + 1 | qx in ql, %s}", "list": "[qx | qx in ql, %s]", "set": "{qx | qx in ql, %s}"}[kind] % ", ".join(conds)
        qty = {"dict": "Dict[Int, Int]", "list": "List[Int]", "set": "Set[Int]"}[kind]
        src = head + "def ql := [0, 1, 2, 3, 4, 5, 6, 7, 8, 9, 10, 11]\ndef qr: %s := %s\nfor qk in ql do\n    if qk in qr then print(qk)\n" % (qty, body)
        exp = sorted(str(q) for q in vals)
        return {"gen": "nest", "src": src, "ctx": ctx + ":" + kind, "expect": exp, "sorted": True, "annotate": draw(st.booleans())}
    return {"gen": "nest", "src": src, "ctx": ctx, "expect": exp, "annotate": draw(st.booleans())}


@st.composite
def _case(draw, tier):
    if draw(st.integers(0, 9)) < 2:
        return draw(_nest_case())
    if draw(st.integers(0, 9)) < 6:
        prog = draw(exprgen.program(depth=draw(st.integers(1, 4))))
        return {"gen": "e2e", "src": prog["src"], "ctx": prog["ctx"], "ty": prog["ty"],
                "annotate": draw(st.booleans())}
    spec = draw(_spec_strategy(draw(st.integers(3, 7))))
    core = ct.build(spec, ct.Namer())
    return {"gen": "tree", "core": core, "depth": ct.spec_depth(spec)}


class C10:
    id = "C10"
    cases = {"quick": 1500, "thorough": 40000}
    rule = ("(enum, exhaustive) every Core expression tree made of a parent constructor, one slot filled with a child "
            "constructor (depth 2), every spine parent/slot/child/slot/grandchild (depth 3) and every two-operand parent "
            "with two compound children, over 49 constructors (23 binary operators, 4 unary, sqrt, isa, ternary, lambda, "
            "attribute, method call, call, index, tuple/list/set/dict, and the desugared shapes range(.., to + 1, ..), "
            "slice(.., to - 1, ..), not isinstance, `?` as or, E-notation) with fresh leaf names; (tree) random deeper "
            "trees (<=14 leaves) drawn by Hypothesis. Each tree is built in the worker from JSON and printed by mamba's "
            "Display for Core. Non-trivial: the tree has a compound operand (depth >= 2); distinct by SHA-1 of the tree. "
            "Oracle: ast.parse(printed text) normalised == the shape the table of DESIGN.md appendix A assigns to the tree "
            "(nested same-operator and/or flattened on both sides). (e2e) typed Mamba expressions with randomly placed "
            "(also missing) parentheses in 10 statement contexts (initialiser, argument, implicit return, condition, index, "
            "range bounds, reassignment, print), both annotate settings; expected tree = mamba's own parse of the text "
            "(worker op `parse`) mapped by the same table, compared with the expression found at the same site of the "
            "emitted module. (stress, fixed) ~1100 source expressions x 2 contexts: signed literals and names in every operand slot of every "
            "operator, comparisons as operands of comparisons, judged like (e2e). (nest) nested tuples / lists of tuples / call arguments in 11 statement contexts (explicit return, "
            "implicit return, print, annotated definition, argument, returned call, if-expression branches, list elements, "
            "reassignment, method return) and builder conditions with a disjunction next to other conditions (dict / list / set); "
            "oracle: the values the emitted module prints are the values of the source tree (a lost pair of parentheses flattens a "
            "tuple or regroups a condition).")
    assumptions = [
        "CPython 3.11's ast.parse defines how Python groups the printed text",
        "and/or are compared after flattening nested same-operator chains (associative in value and evaluation order)",
        "leaf spellings avoid contested forms (negative literals, 1.real)",
    ]
    strict = False

    def strategy(self, tier, switches):
        return _case(tier)

    def fixed_cases(self, tier, switches):
        for e, ty in exprgen.sign_stress():
            for ctx, tail in (("init", "def r: %s := %s\n" % (exprgen.TYPE_NAME[ty], e)), ("print", "print(%s)\n" % e)):
                yield {"gen": "e2e", "src": exprgen.PRELUDE + tail, "ctx": ctx, "ty": ty, "annotate": False, "expr": e,
                       "stress": True}
        it = ct.enumerate_specs()
        while True:
            chunk = list(itertools.islice(it, BATCH))
            if not chunk:
                break
            yield {"gen": "enum", "specs": chunk}

    def coverage_extra(self, classes):
        return {"exhaustive_subspace": "all depth<=3 parent/slot/child(/slot/grandchild) combinations and all "
                                       "two-compound-children binaries over %d constructors: %d trees"
                                       % (len(ct.CTORS), classes.get("enum_trees", 0)),
                "exhaustive": False}

    def summarize(self, case):
        if case["gen"] == "enum":
            core = ct.build(_tuplify(case["specs"][len(case["specs"]) // 2]), ct.Namer())
            return {"gen": "enum", "example_tree": core}
        if case["gen"] == "nest":
            return {"gen": "nest", "ctx": case["ctx"], "annotate": case["annotate"], "program": case["src"][-300:]}
        if case["gen"] == "e2e":
            return {"gen": "e2e", "ctx": case["ctx"], "annotate": case["annotate"],
                    "statement": case["src"][len(exprgen.PRELUDE):]}
        return case

    def check_e2e(self, worker, case, stats):
        stats.inc("e2e_sign_stress" if case.get("stress") else "e2e")
        src, ctx = case["src"], case["ctx"]
        r = worker.call({"op": "parse", "src": src})
        if "ast" not in r:
            stats.inc("e2e_unparsable")
            return None
        try:
            tree = rd.parse(r["ast"])
            stmts = rd.node_of(tree)[1]["statements"]
            want_core = mamba_site(stmts, ctx)
            want = ct.expected(want_core)
        except rd.Unsupported:
            stats.inc("e2e_unsupported_shape")
            return None
        t = worker.transpile1(src, case["annotate"])
        if "ok" not in t:
            stats.inc("e2e_rejected" if "err" in t else "e2e_crash_left_to_C03")
            return None
        stats.inc("e2e_accepted")
        stats.inc("e2e_ctx:" + ctx)
        py = t["ok"][0]
        try:
            mod = pyast.parse(py)
            got = ct.norm(python_site(mod, ctx))
        except SyntaxError:
            stats.inc("e2e_invalid_python_left_to_C02")
            return None
        except (LookupError, AttributeError, IndexError):
            # e.g. an if-expression initialiser that the generator turned into an if statement with assignments
            stats.inc("e2e_site_restructured")
            return None
        if _compound(want):
            stats.mark_nontrivial(case, key="e2e-" + ctx)
        if got != want:
            return {"what": "expression from source (%s context) is grouped differently in the emitted Python" % ctx,
                    "expression": case.get("expr") or src[len(exprgen.PRELUDE):], "python": py[-400:],
                    "expected": repr(want), "parsed": repr(got)}
        return None

    def check_nest(self, worker, case, stats):
        """nested tuples / lists / call arguments / builder conditions in statement contexts: the value the emitted Python
        computes is the value of the source tree (a lost pair of parentheses flattens a tuple or regroups a condition)"""
        stats.inc("nest")
        t = worker.transpile1(case["src"], case["annotate"])
        if "ok" not in t:
            stats.inc("nest_rejected" if "err" in t else "nest_crash_left_to_C03")
            if "err" in t:
                stats.inc("nest_reject_reason:" + t["err"][0].split("\n")[0][:50])
            return None
        stats.inc("nest_accepted")
        stats.inc("nest_ctx:" + case["ctx"])
        py = t["ok"][0]
        got = pyoracle.run_module(py, 20000)
        if got.get("compile_error"):
            stats.inc("nest_invalid_python_left_to_C02")
            return None
        stats.mark_nontrivial(case, key="nest-" + case["ctx"])
        out = sorted(got["out"]) if case.get("sorted") else got["out"]
        if got["exc"] is not None or out != case["expect"]:
            return {"what": "nested expression (%s context) is grouped differently in the emitted Python: expected %s, got %s %s"
                            % (case["ctx"], case["expect"], out, got["exc"] or ""), "python": py[-500:], "source": case["src"]}
        return None

    def check(self, worker, case, stats):
        if case["gen"] == "nest":
            return self.check_nest(worker, case, stats)
        if case["gen"] == "e2e":
            return self.check_e2e(worker, case, stats)
        if case["gen"] == "enum":
            cores = [ct.build(_tuplify(s), ct.Namer()) for s in case["specs"]]
            depths = [ct.spec_depth(_tuplify(s)) for s in case["specs"]]
            stats.evaluations += len(cores) - 1
        else:
            cores = [case["core"]]
            depths = [case.get("depth", 2)]
        r = worker.call({"op": "core_print", "cores": cores})
        if "texts" not in r:
            if outcome(r) in ("panic", "abort"):
                return {"what": "printer crashed: %s" % (r.get("panic") or r.get("abort")),
                        "replay_case": case}
            return {"inconclusive": True, "why": "core_print failed", "reply": r}
        for core, text, d in zip(cores, r["texts"], depths):
            if not isinstance(text, str):
                return {"inconclusive": True, "why": "builder error", "reply": text}
            stats.inc("enum_trees" if case["gen"] == "enum" else "random_trees")
            stats.inc("depth:%d" % min(d, 8))
            if d >= 2:
                single = {"gen": "tree", "core": core, "depth": d}
                stats.mark_nontrivial(single, key="%s-d%d" % (case["gen"], min(d, 4)))
            msg = judge_tree(core, text)
            if msg:
                return {"what": msg, "printed": text, "expected": repr(ct.expected(core)),
                        "parsed": repr(ct.parse_expr(text)),
                        "replay_case": {"gen": "tree", "core": core, "depth": d}}
        return None


def _tuplify(spec):
    if spec is None:
        return None
    return (spec[0], [_tuplify(k) for k in spec[1]])


def _compound(tree):
    """expected tree has an operator node with an operator/call child"""
    def is_op(t):
        return isinstance(t, tuple) and t and t[0] in ("BinOp", "UnaryOp", "BoolOp", "Compare", "IfExp", "Call",
                                                       "Subscript", "Attribute", "Lambda")

    def kids(t):
        for x in t[1:]:
            if isinstance(x, tuple):
                if x and isinstance(x[0], str):
                    yield x
                else:
                    for y in x:
                        if isinstance(y, tuple):
                            yield y
    return is_op(tree) and any(is_op(k) for k in kids(tree))


def mamba_site(stmts, ctx):
    """Core tree of the expression under test, read from mamba's own parse of the last statement."""
    tag, f = rd.node_of(stmts[-1])
    if ctx in ("init", "arg", "index"):
        e = rd.opt(f["expr"])
        if ctx == "init":
            return rd.to_core(e)
        etag, ef = rd.node_of(e)
        if ctx == "arg":
            return rd.to_core(ef["args"][0])
        return rd.to_core(ef["range"])
    if ctx == "ret":
        return rd.to_core(rd.opt(f["body"]))
    if ctx == "cond":
        return rd.to_core(f["cond"])
    if ctx in ("range_to", "range_from"):
        return rd.to_core(f["col"])
    if ctx == "reassign":
        return rd.to_core(f["right"])
    if ctx == "print":
        return rd.to_core(f["args"][0])
    raise LookupError(ctx)


def python_site(mod, ctx):
    last = mod.body[-1]
    if ctx in ("init", "arg", "index", "reassign"):
        if not isinstance(last, (pyast.Assign, pyast.AnnAssign)):
            raise LookupError("last statement is %s" % type(last).__name__)
        v = last.value
        if ctx == "arg":
            return v.args[0]
        if ctx == "index":
            return v.slice
        return v
    if ctx == "ret":
        if not isinstance(last, pyast.FunctionDef) or not isinstance(last.body[-1], pyast.Return):
            raise LookupError("no function with return at the end")
        return last.body[-1].value
    if ctx == "cond":
        if not isinstance(last, pyast.If):
            raise LookupError("last statement is %s" % type(last).__name__)
        return last.test
    if ctx in ("range_to", "range_from"):
        if not isinstance(last, pyast.For):
            raise LookupError("last statement is %s" % type(last).__name__)
        return last.iter
    if ctx == "print":
        return last.value.args[0]
    raise LookupError(ctx)
