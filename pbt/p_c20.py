"""C20 — assignability is a sound order: reflexive, transitive, Any top, nullable rules, unions."""
import itertools

from hypothesis import strategies as st

from pbt.worker import outcome


@st.composite
def hierarchies(draw):
    """A user class forest of depth <= 3 with multiple parents, an interface and an exception."""
    n = draw(st.integers(3, 7))
    names = ["U%d" % i for i in range(n)]
    parents = {}
    depth = {}
    for i, c in enumerate(names):
        cands = [p for p in names[:i] if depth[p] < 3]
        k = draw(st.integers(0, min(2, len(cands))))
        ps = []
        for _ in range(k):
            p = cands[draw(st.integers(0, len(cands) - 1))]
            if p not in ps:
                ps.append(p)
        parents[c] = ps
        depth[c] = 1 + max([depth[p] for p in ps] or [0])
    lines = []
    for c in names:
        lines.append("class %s%s" % (c, (": " + ", ".join(parents[c])) if parents[c] else ""))
        lines.append("    def f_%s: Int := 1" % c.lower())
    # interface + implementer, exception chain
    lines += ["type Iface", "    def ifun(self) -> Int", "class Impl: Iface", "    def ifun(self) -> Int => 1"]
    parents["Iface"] = []
    parents["Impl"] = ["Iface"]
    lines += ["class Err1(msg: Str): Exception(msg)", "class Err2(msg: Str): Err1(msg)"]
    parents["Err1"] = ["Exception"]
    parents["Err2"] = ["Err1"]
    # body-less type definitions with a parent (no body, no condition), also chained
    k = draw(st.integers(0, n - 1))
    lines += ["type Ty0: %s" % names[k], "type Ty1: Ty0"]
    parents["Ty0"] = [names[k]]
    parents["Ty1"] = ["Ty0"]
    # classes whose parents are instantiations of a generic class; one class reaches the same generic class twice, with
    # different arguments, through two parents
    lines += ["class Gp1: Collection[Int]", "class Gp2: Collection[Str]", "class Gq: Gp1, Gp2"]
    parents["Gp1"] = []
    parents["Gp2"] = []
    parents["Gq"] = ["Gp1", "Gp2"]
    size = draw(st.sampled_from(["small", "small", "medium"]))  # medium only matters in the thorough tier
    return {"src": "\n".join(lines) + "\n", "user_parents": parents, "size": size,
            "generic_parents": {"Gp1": "Collection[Int]", "Gp2": "Collection[Str]"},
            "pick": draw(st.integers(0, 10 ** 6))}


def N(n, *g):
    return {"n": n, "g": list(g)} if g else {"n": n}


def build_universe(case, classes, tier):
    """-> list of (term, tags) ; tags: dict(kind=..., base=..., members=...)"""
    user = sorted(case["user_parents"])
    plain_builtin = sorted(c for c, info in classes.items() if info["generics"] == 0 and c not in case["user_parents"]
                           and not c.endswith("iterator") and c not in ("Generic",))
    plain = plain_builtin + user
    terms = []

    def add(term, **tags):
        terms.append((term, tags))
        return len(terms) - 1

    idx = {}
    for c in plain:
        idx[c] = add(N(c), kind="class", cls=c)
    base6 = ["Int", "Float", "Str", "Bool", user[0], user[-1]]
    gens = []
    for col in ("List", "Set"):
        for b in base6:
            idx["%s[%s]" % (col, b)] = add(N(col, N(b)), kind="generic", col=col, args=(idx[b],), text="%s[%s]" % (col, b))
            gens.append(idx["%s[%s]" % (col, b)])
    # generics with several arguments: every position must count (a mismatch in the first, the middle, the last one)
    for a, b in [("Int", "Str"), ("Int", "Int"), ("Float", "Int"), (user[0], "Int"), ("Str", "Int"), ("Str", "Str"),
                 ("Int", user[0])]:
        gens.append(add(N("Dict", N(a), N(b)), kind="generic", col="Dict", args=(idx[a], idx[b]), text="Dict[%s, %s]" % (a, b)))
        gens.append(add({"tuple": [N(a), N(b)]}, kind="generic", col="Tuple", args=(idx[a], idx[b]), text="(%s, %s)" % (a, b)))
    for a, b, c in [("Int", "Int", "Int"), ("Str", "Int", "Int"), ("Int", "Str", "Int"), ("Int", "Int", "Str"),
                    (user[0], "Int", "Int")]:
        gens.append(add({"tuple": [N(a), N(b), N(c)]}, kind="generic", col="Tuple", args=(idx[a], idx[b], idx[c]),
                        text="(%s, %s, %s)" % (a, b, c)))
    for b in ("Int", "Str", "Float"):
        idx["Collection[%s]" % b] = add(N("Collection", N(b)), kind="generic", col="Collection", args=(idx[b],),
                                        text="Collection[%s]" % b)
        gens.append(idx["Collection[%s]" % b])
    # depth 2
    gens.append(add(N("List", N("List", N("Int"))), kind="generic", col="List", args=(idx["List[Int]"],)))
    gens.append(add(N("List", N("List", N("Float"))), kind="generic", col="List", args=(idx["List[Float]"],)))
    gens.append(add(N("List", N("List", N("Str"))), kind="generic", col="List", args=(idx["List[Str]"],)))
    gens.append(add(N("Set", N("List", N(user[0]))), kind="generic", col="Set", args=(idx["List[%s]" % user[0]],)))
    gens.append(add({"tuple": [N("List", N("Int")), N("Str")]}, kind="generic", col="Tuple", args=(idx["List[Int]"], idx["Str"])))
    gens.append(add({"tuple": [N("List", N("Str")), N("Str")]}, kind="generic", col="Tuple", args=(idx["List[Str]"], idx["Str"])))
    gens.append(add(N("Dict", N("List", N("Int")), N("Int")), kind="generic", col="Dict", args=(idx["List[Int]"], idx["Int"])))
    gens.append(add(N("Dict", N("List", N("Str")), N("Int")), kind="generic", col="Dict", args=(idx["List[Str]"], idx["Int"])))
    # functions: reflexivity only
    add({"fun": [[N("Int")], N("Int")]}, kind="fun")
    add({"fun": [[N("Int"), N("Str")], N("Bool")]}, kind="fun")
    add({"fun": [[], N(user[0])]}, kind="fun")
    nonnull = list(range(len(terms)))
    # nullable variants
    opt_of = {}
    for i in nonnull:
        t, tags = terms[i]
        if tags["kind"] in ("class", "generic") and tags.get("cls") != "None":
            opt_of[i] = add({"opt": t}, kind="opt", of=i)
    # names as the checker itself builds them from type annotations in source (`def zz: <text>`): twins of constructed terms
    # (must answer identically), and unions written in source, which Name::union does not normalise: {A?, B}, {A, B?}, ...
    annot = ["Int", "Float", "Str", "Bool", "Complex", user[0], user[-1], "Err1"]
    annot = [a for a in annot if a in idx]
    for i in list(nonnull):
        t, tags = terms[i]
        if tags.get("text"):
            add({"ann": tags["text"]}, kind="twin", of=i)
    for a in annot[:4]:
        add({"ann": a}, kind="twin", of=idx[a])
        add({"ann": a + "?"}, kind="twin", of=opt_of[idx[a]])
    k = case["pick"] % len(annot)
    ring = annot[k:] + annot[:k]
    for a, b in list(itertools.combinations(ring[:5], 2)):
        for qa, qb in (("", ""), ("?", ""), ("", "?"), ("?", "?")):
            ma = opt_of[idx[a]] if qa else idx[a]
            mb = opt_of[idx[b]] if qb else idx[b]
            add({"ann": "{%s%s, %s%s}" % (a, qa, b, qb)}, kind="union_ann", members=(ma, mb), nullable=bool(qa or qb))
    # unions of two members
    members = [idx[c] for c in plain if c != "Any"]
    if tier == "quick" or case["size"] == "small":
        # a rotating window keeps the quick universe near 200 terms
        k = case["pick"] % max(1, len(members))
        members = (members[k:] + members[:k])[:9]
    members = members + gens[:3]
    for a, b in itertools.combinations(members, 2):
        add({"u": [terms[a][0], terms[b][0]]}, kind="union", members=(a, b))
    # nullable member unions and a few unions of three for associativity
    for a, b in list(itertools.combinations(members[:4], 2)):
        add({"u": [{"opt": terms[a][0]}, terms[b][0]]}, kind="union_opt", members=(a, b))
    trip = members[:5]
    for a, b, c in itertools.combinations(trip, 3):
        add({"u": [{"u": [terms[a][0], terms[b][0]]}, terms[c][0]]}, kind="union3", members=(a, b, c), shape="ab_c")
        add({"u": [terms[a][0], {"u": [terms[b][0], terms[c][0]]}]}, kind="union3", members=(a, b, c), shape="a_bc")
    return terms, idx


def ancestors(cls, parents):
    seen = set()
    todo = [cls]
    while todo:
        c = todo.pop()
        if c in seen:
            continue
        seen.add(c)
        todo.extend(parents.get(c, []))
    return seen


class C20:
    id = "C20"
    cases = {"quick": 1, "thorough": 30}
    rule = ("per case a generated user hierarchy (3-7 classes, depth <=3, up to two parents each, an interface with "
            "implementer, a two-level exception chain) is compiled into a context; the universe is every plain class of that "
            "context (built-in and user, incl. user classes whose parents are Collection[Int] / Collection[Str] and one class that reaches "
            "Collection twice through two parents), List/Set/Dict/Tuple/Collection instantiations to depth 2, function types, the nullable variant of "
            "each, unions of two members (all pairs over a window of the classes in quick, all classes in thorough), unions with "
            "a nullable member and both bracketings of unions of three. The worker tabulates is_superset_of for ALL ordered "
            "pairs, twice, from freshly constructed names (second time union members inserted in reverse). Oracle on the "
            "matrix, exhaustively: no query errs or panics; reflexive; transitive over all triples; Any >= every non-nullable T; "
            "T? >= T, T? >= None, not T >= T?; class >= class exactly as the reflexive-transitive closure of the declared parents "
            "says; U >= (A|B) iff U >= A and U >= B; (A|B) >= A, B; union commutative, associative, idempotent as Name equality "
            "and as equal rows/columns; both tabulations identical. Non-trivial: a pair or triple of distinct types; counted per "
            "ordered pair; each universe is enumerated completely.")
    assumptions = [
        "the reference order on plain classes is the reflexive-transitive closure of the parents the context itself reports "
        "(Int <: Float <: Complex comes from the stubs), plus everything <= Any",
        "variance of generic instantiations and the relation between None and Any are not asserted (the statement is silent)",
    ]
    strict = False
    tier = "quick"

    def strategy(self, tier, switches):
        self.tier = tier
        return hierarchies()

    def fixed_cases(self, tier, switches):
        self.tier = tier
        yield {"src": "class U0\n    def f_u0: Int := 1\nclass U1: U0\n    def f_u1: Int := 1\nclass U2: U1\n    def f_u2: Int := 1\n"
                      "class U3\n    def f_u3: Int := 1\nclass U4: U0, U3\n    def f_u4: Int := 1\ntype Iface\n    def ifun(self) -> Int\n"
                      "class Impl: Iface\n    def ifun(self) -> Int => 1\nclass Err1(msg: Str): Exception(msg)\nclass Err2(msg: Str): Err1(msg)\n"
                      "type Ty0: U2\ntype Ty1: Ty0\nclass Gp1: Collection[Int]\nclass Gp2: Collection[Str]\nclass Gq: Gp1, Gp2\n",
               "user_parents": {"U0": [], "U1": ["U0"], "U2": ["U1"], "U3": [], "U4": ["U0", "U3"], "Iface": [],
                                "Impl": ["Iface"], "Err1": ["Exception"], "Err2": ["Err1"], "Ty0": ["U2"], "Ty1": ["Ty0"],
                                "Gp1": [], "Gp2": [], "Gq": ["Gp1", "Gp2"]},
               "generic_parents": {"Gp1": "Collection[Int]", "Gp2": "Collection[Str]"},
               "size": "medium", "pick": 0}

    def summarize(self, case):
        return {"hierarchy": case["user_parents"], "size": case["size"]}

    def coverage_extra(self, classes):
        return {"exhaustive_subspace": "every ordered pair (and every triple for transitivity) of each universe: %d pairs"
                                       % classes.get("pairs", 0)}

    def check(self, worker, case, stats):
        probe = worker.call({"op": "lattice", "src": case["src"], "terms": [], "eq": []})
        if "classes" not in probe:
            if outcome(probe) in ("panic", "abort"):
                return {"what": "building the context crashed: %s" % (probe.get("panic") or probe.get("abort"))}
            return {"inconclusive": True, "why": "cannot build context: %s" % probe.get("error")}
        classes = probe["classes"]
        terms, idx = build_universe(case, classes, self.tier)
        eq_pairs = []
        by_members = {}
        for i, (t, tags) in enumerate(terms):
            if tags["kind"] == "union":
                by_members[tags["members"]] = i
        # terms and == queries for the algebraic laws ride along in the same tabulation
        checks = []
        unions = [(u, tags["members"]) for u, (t, tags) in enumerate(terms) if tags["kind"] == "union"]
        if self.tier == "quick":
            step = max(1, len(unions) // 20)
            unions = unions[case["pick"] % step::step]
        for u, (a, b) in unions:
            checks.append(("commutative", u, {"u": [terms[b][0], terms[a][0]]}))
            checks.append(("idempotent", a, {"u": [terms[a][0], terms[a][0]]}))
        tri = {}
        for u, (t, tags) in enumerate(terms):
            if tags["kind"] == "union3":
                tri.setdefault(tags["members"], {})[tags["shape"]] = u
        extra_terms = [c[2] for c in checks]
        base = len(terms)
        pairs = [[c[1], base + k] for k, c in enumerate(checks)]
        for m, d in tri.items():
            if len(d) == 2:
                pairs.append([d["ab_c"], d["a_bc"]])
                checks.append(("associative", d["ab_c"], None))
        r = worker.call({"op": "lattice", "src": case["src"], "terms": [t for t, _ in terms] + extra_terms, "eq": pairs},
                        cpu_limit=900)
        if "sup" not in r:
            if outcome(r) in ("panic", "abort"):
                return {"what": "tabulating the relation crashed: %s" % (r.get("panic") or r.get("abort"))}
            return {"inconclusive": True, "why": str(r)[:300]}
        S3 = [list(row) for row in r["sup"]]
        n = len(terms)
        S = [row[:n] for row in r["sup"][:n]]
        S2 = [row[:n] for row in r["sup2"][:n]]
        disp = r["display"]
        stats.inc("universes")
        stats.inc("terms", n)
        stats.inc("pairs", n * n)
        stats.evaluations += n * n - 1

        def name(i):
            return disp[i]

        # function types take part in reflexivity only (the property's quantifier): mask their other pairs
        funs = [i for i, (t, tags) in enumerate(terms) if tags["kind"] == "fun"]
        for f in funs:
            for j in range(n):
                if j != f:
                    S[f][j] = S2[f][j] = 0
                    S[j][f] = S2[j][f] = 0
        # Collection[..] terms are outside the universe of the statement (List / Set / Tuple / Dict); they are here as declared
        # parents of user classes. A query between one of them and a tuple type ends in "Type 'T' is undefined" on the pinned
        # tree (the parent Collection[T] of Tuple is looked up without its argument); the statement does not say that queries
        # never err, so such an answer counts as "not assignable" and is counted
        for c in [i for i in range(n) if "Collection[" in disp[i]]:
            for j in range(n):
                for M in (S, S2):
                    if M[c][j] == 2:
                        M[c][j] = 0
                        stats.inc("collection_query_errs_counted_as_not_assignable")
                    if M[j][c] == 2:
                        M[j][c] = 0
                        stats.inc("collection_query_errs_counted_as_not_assignable")
        # no errors / panics
        for i in range(n):
            for j in range(n):
                if S[i][j] >= 2:
                    return {"what": "query %s >= %s %s" % (name(i), name(j), "panics" if S[i][j] == 3 else "errs"),
                            "errors": r.get("errors")}
        if S != S2:
            for i in range(n):
                for j in range(n):
                    if S[i][j] != S2[i][j]:
                        return {"what": "answer of %s >= %s depends on how the names were built (%d vs %d)"
                                        % (name(i), name(j), S[i][j], S2[i][j])}
        stats.mark_nontrivial({"src": case["src"], "n": n}, sample={"hierarchy": case["user_parents"], "terms": n,
                                                                    "some_terms": disp[:6] + disp[-6:]})
        # reflexive
        for i in range(n):
            if not S[i][i]:
                return {"what": "not reflexive: %s is not assignable to itself" % name(i)}
        # transitive (bit rows)
        rows = [sum(1 << j for j in range(n) if S[i][j]) for i in range(n)]
        for i in range(n):
            for j in range(n):
                if S[i][j] and (rows[j] & ~rows[i]):
                    k = (rows[j] & ~rows[i]).bit_length() - 1
                    return {"what": "not transitive: %s >= %s and %s >= %s but not %s >= %s"
                                    % (name(i), name(j), name(j), name(k), name(i), name(k))}
        any_i = idx["Any"]
        none_i = idx.get("None")
        parents = {c: info["parents"] for c, info in classes.items()}
        # for the classes of the generated hierarchy the reference is what the SOURCE declares, not what the context reports
        for c, ps in case["user_parents"].items():
            parents[c] = list(ps)
        for i, (t, tags) in enumerate(terms):
            k = tags["kind"]
            has_none = none_i is not None and none_i in (tags.get("members") or ())
            if k in ("class", "generic", "union", "union3") and tags.get("cls") != "None" and not has_none:
                if not S[any_i][i]:
                    return {"what": "Any is not a supertype of the non-nullable %s" % name(i)}
            if k == "opt":
                b = tags["of"]
                if not S[i][b]:
                    return {"what": "%s is not assignable to %s" % (name(b), name(i))}
                if none_i is not None and not S[i][none_i]:
                    return {"what": "None is not assignable to %s" % name(i)}
                if S[b][i]:
                    return {"what": "%s is assignable to the non-nullable %s" % (name(i), name(b))}
        # class order == closure of declared parents
        cls_terms = [(i, tags["cls"]) for i, (t, tags) in enumerate(terms) if tags["kind"] == "class"]
        anc = {c: ancestors(c, parents) for _, c in cls_terms}
        for i, ci in cls_terms:
            for j, cj in cls_terms:
                if ci in ("Any", "None") or cj in ("Any", "None"):
                    continue
                want = ci in anc[cj]
                if bool(S[i][j]) != want:
                    return {"what": "%s >= %s is %s but the declared hierarchy says %s" % (ci, cj, bool(S[i][j]), want),
                            "ancestors_of_" + cj: sorted(anc[cj])}
        # a class is assignable to the instantiation of a generic class it declares as parent (what its descendants reach through
        # it follows from transitivity, checked above)
        for c, g in (case.get("generic_parents") or {}).items():
            if c in idx and g in idx:
                stats.inc("declared_generic_parents")
                if not S[idx[g]][idx[c]]:
                    return {"what": "%s is not assignable to its declared parent %s" % (c, g)}
        # an annotation-built name answers exactly like the constructed name of the same type
        for u, (t, tags) in enumerate(terms):
            if tags["kind"] == "twin":
                o = tags["of"]
                if S[u] != S[o] or [row[u] for row in S] != [row[o] for row in S]:
                    j = next(j for j in range(n) if S[u][j] != S[o][j] or S[j][u] != S[j][o])
                    return {"what": "the name built from the annotation %s answers differently from the constructed name %s (against %s)"
                                    % (t["ann"], name(o), name(j))}
                stats.inc("annotation_twins")
        # generic instantiations of one constructor whose arguments are unrelated in some position are unrelated, whatever the
        # variance (the statement: a class is not assignable to unrelated classes)
        gen_terms = [(i, tags) for i, (t, tags) in enumerate(terms) if tags["kind"] == "generic" and tags.get("args")]
        for i, ti in gen_terms:
            for j, tj in gen_terms:
                if i == j or ti["col"] != tj["col"] or len(ti["args"]) != len(tj["args"]):
                    continue
                unrelated = [p for p, (x, y) in enumerate(zip(ti["args"], tj["args"])) if not S[x][y] and not S[y][x]]
                if unrelated:
                    stats.inc("generic_unrelated_pairs")
                    if S[i][j]:
                        p = unrelated[0]
                        return {"what": "%s >= %s although argument %d (%s vs %s) is unrelated in both directions"
                                        % (name(i), name(j), p, name(ti["args"][p]), name(tj["args"][p]))}
        # unions
        for u, (t, tags) in enumerate(terms):
            if tags["kind"] in ("union", "union_ann"):
                a, b = tags["members"]
                if not (S[u][a] and S[u][b]):
                    return {"what": "the union %s does not accept its member %s" % (name(u), name(a if not S[u][a] else b))}
                with_none = (none_i is not None and none_i in (a, b)) or tags.get("nullable")
                if tags["kind"] == "union_ann":
                    stats.inc("source_unions")
                for x in range(n):
                    if with_none and x == any_i:
                        continue  # whether None is assignable to Any is not stated by the property
                    if bool(S[x][u]) != bool(S[x][a] and S[x][b]):
                        return {"what": "%s >= %s is %s although >= %s is %s and >= %s is %s"
                                        % (name(x), name(u), bool(S[x][u]), name(a), bool(S[x][a]), name(b), bool(S[x][b]))}
        # algebraic laws: Name equality and equal rows/columns
        r2 = r
        for (law, u, _t), (i, j), ok in zip(checks, pairs, r2["eq"]):
            stats.inc("law:" + law)
            if not ok:
                return {"what": "union is not %s as Name equality: %s vs %s" % (law, r2["display"][i], r2["display"][j])}
            if S3[i] != S3[j] or [row[i] for row in S3] != [row[j] for row in S3]:
                return {"what": "union is not %s in the relation: %s and %s answer differently" %
                                (law, r2["display"][i], r2["display"][j])}
        return None
