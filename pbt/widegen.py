"""WideGen: grammar coverage beyond the executable core language of CoreGen.

A program is a random composition of independently instantiated *snippets*. Each snippet exercises one construct family that
CoreGen does not produce (union / tuple / callable / nullable types in every annotation position, list / set / dict builders with
conditions, dict and set literals, slices, lambdas and higher-order parameters, type aliases with conditions, classes with a
tuple parent, interfaces, generic class headers, vararg, `pure`, `with`, doc-strings and multi-line strings, user imports at
various places next to constructs that need support imports, bitwise operators, `isa` / `is`, operator methods). Inside a snippet
names, literals, type members, operators, condition shapes and positions are Hypothesis draws. Every snippet shape was checked to
be accepted by the checker on the pinned tree; what a run accepts is measured (`wide_snippet:<name>` counters), never assumed:
the programs serve properties whose oracle does not depend on a model of the meaning (C02 valid Python, C11 annotate inert,
C12 determinism, C14 layout trivia, C16 imports, C03 totality as mutation base).
"""
from hypothesis import strategies as st

# every identifier WideGen chooses is letters + number (C15 renames them); type variables A, C and imported modules excepted
USER_NAME = r"\b(?:[a-z]{2,6}|[A-Z][a-z])\d+\b"
PRIM = ["Int", "Str", "Bool", "Float"]
LIT = {"Int": ["1", "7", "42", "0"], "Str": ['"a"', '"bc"', '"x y"'], "Bool": ["True", "False"], "Float": ["1.5", "0.25", "2.0"]}


class W:
    def __init__(self, draw):
        self.draw = draw
        self.k = 0

    def i(self, lo, hi):
        return self.draw(st.integers(lo, hi))

    def chance(self, pct):
        return self.i(0, 99) < pct

    def pick(self, seq):
        seq = list(seq)
        return seq[self.i(0, len(seq) - 1)]

    def uid(self):
        self.k += 1
        return self.k

    def lit(self, t):
        return self.pick(LIT[t])

    # -- types ---------------------------------------------------------------------------------------------
    def simple_type(self):
        return self.pick(PRIM)

    def generic_type(self):
        k = self.pick(["List", "Set", "Tuple2", "Tuple3", "Dict"])
        if k in ("List", "Set"):
            return "%s[%s]" % (k, self.simple_type())
        if k == "Tuple2":
            return "(%s, %s)" % (self.simple_type(), self.simple_type())
        if k == "Tuple3":
            return "(%s, %s, %s)" % (self.simple_type(), self.simple_type(), self.simple_type())
        return "Dict[%s, %s]" % (self.pick(["Str", "Int"]), self.simple_type())

    def union_type(self, nullable_members=False):
        n = self.i(2, 4)
        how = self.pick(["prims", "same_generic", "mixed"])
        members = []
        if how == "same_generic":
            col = self.pick(["List", "Set"])
            for t in self.draw(st.permutations(PRIM))[:n]:
                members.append("%s[%s]" % (col, t))
        elif how == "prims":
            members = list(self.draw(st.permutations(PRIM))[:n])
        else:
            while len(members) < n:
                m = self.pick([self.simple_type(), self.generic_type()])
                if m not in members:
                    members.append(m)
        if nullable_members:
            members = [m + "?" if self.chance(40) and not m.startswith("(") else m for m in members]
        return "{%s}" % ", ".join(members), members

    def value_of(self, t):
        """a literal expression of type text t (one of the shapes produced above)"""
        t = t.rstrip("?")
        if t in LIT:
            return self.lit(t)
        if t.startswith("List["):
            return "[%s]" % self.value_of(t[5:-1])
        if t.startswith("Set["):
            return "{%s}" % self.value_of(t[4:-1])
        if t.startswith("Dict["):
            a, b = t[5:-1].split(", ")
            return "{%s => %s}" % (self.value_of(a), self.value_of(b))
        if t.startswith("("):
            return "(%s)" % ", ".join(self.value_of(x) for x in t[1:-1].split(", "))
        raise ValueError(t)

    # -- conditions over an Int variable ---------------------------------------------------------------------
    def cond(self, v, flag=None, depth=1):
        k = self.pick(["cmp", "cmp", "and", "or", "not", "ternary", "mod"] if depth > 0 else ["cmp", "mod"])
        c = "%s %s %d" % (v, self.pick([">", "<", ">=", "<=", "="]), self.i(0, 9))
        if k == "cmp":
            return c
        if k == "mod":
            return "%s mod %d = %d" % (v, self.i(2, 4), self.i(0, 1))
        if k == "and":
            return "%s and %s" % (c, self.cond(v, flag, depth - 1))
        if k == "or":
            return "%s or %s" % (c, self.cond(v, flag, depth - 1))
        if k == "not":
            return "not (%s)" % c
        f = flag or "True"
        return "if %s then %s else %s" % (f, c, self.cond(v, flag, 0))

    # -- snippets ------------------------------------------------------------------------------------------
    def s_union_annotations(self):
        n = self.uid()
        u, members = self.union_type()
        u2, members2 = self.union_type()
        v = self.value_of(members[self.i(0, len(members) - 1)])
        lines = ["def uv%d: %s := %s" % (n, u, v)]
        if self.chance(60):
            lines.append("def uf%d(pp%d: %s, qq%d: %s) -> %s => pp%d" % (n, n, u, n, u2, u, n))
        if self.chance(50):
            lines += ["class UC%d" % n, "    def fld%d: %s := %s" % (n, u2, self.value_of(members2[0])),
                      "    def meth%d(self, pp%d: %s) -> %s => pp%d" % (n, n, u, u, n)]
        return lines

    def s_nullable_union(self):
        n = self.uid()
        u, members = self.union_type(nullable_members=True)
        lines = ["def nu%d(pp%d: %s) => print(1)" % (n, n, u)]
        if self.chance(50):
            lines.append("def nv%d: %s := %s" % (n, u, self.value_of(members[0])))
        return lines

    def s_builders(self):
        n = self.uid()
        lines = ["def bl%d := [%s]" % (n, ", ".join(str(self.i(0, 20)) for _ in range(self.i(2, 5)))),
                 "def bf%d := %s" % (n, self.pick(["True", "False"]))]
        kind = self.pick(["list", "list", "set", "dict"])
        bx = "bx%d" % n
        conds = [self.cond(bx, "bf%d" % n) for _ in range(self.i(0, 2))]
        elem = self.pick(["BX", "BX * 2", "BX + %d" % self.i(1, 5), "(BX, BX)", "if BX > 3 then BX else 0"]).replace("BX", bx)
        tail = (", " + ", ".join(conds)) if conds else ""
        if kind == "list":
            lines.append("def br%d := [%s | %s in bl%d%s]" % (n, elem, bx, n, tail))
        elif kind == "set":
            lines.append("def br%d := {%s | %s in bl%d%s}" % (n, elem, bx, n, tail))
        else:
            lines.append("def br%d := {%s => %s | %s in bl%d%s}" % (n, bx, elem, bx, n, tail))
        if self.chance(30):
            lines.append("def bn%d := [[by%d + bz%d | by%d in bl%d] | bz%d in bl%d, %s]" % (n, n, n, n, n, n, n, self.cond("bz%d" % n, None, 0)))
        return lines

    def s_dict_set(self):
        n = self.uid()
        kt, vt = self.pick(["Str", "Int"]), self.simple_type()
        keys = ['"k%d"' % j for j in range(3)] if kt == "Str" else ["1", "2", "3"]
        lines = ["def dd%d := {%s}" % (n, ", ".join("%s => %s" % (k, self.lit(vt)) for k in keys[:self.i(1, 3)])),
                 "def de%d := dd%d[%s]" % (n, n, keys[0]),
                 "def ds%d := {%s}" % (n, ", ".join(self.lit("Int") for _ in range(self.i(1, 3)))),
                 "def di%d := %s in ds%d" % (n, self.lit("Int"), n)]
        return lines

    def s_slices(self):
        n = self.uid()
        a, b = self.i(0, 2), self.i(2, 5)
        op = self.pick(["::", "::="])
        step = (" :: %d" % self.i(1, 2)) if self.chance(40) else ""
        bound = self.pick([str(b), "sn%d" % n, "(sn%d + 1)" % n])
        return ["def sl%d := [1, 2, 3, 4, 5, 6]" % n, "def sn%d := %d" % (n, b),
                "def ss%d := sl%d[%d %s %s%s]" % (n, n, a, op, bound, step)]

    def s_lambda_hof(self):
        n = self.uid()
        t = self.pick(["Int", "Float"])
        fty = self.pick(["(%s) -> %s" % (t, t), "%s -> %s" % (t, t)])
        z = "zz%d" % n
        body = self.pick(["Z + %s" % self.lit(t), "Z * Z", "if Z > %s then Z else %s" % (self.lit(t), self.lit(t)), "Z"]).replace("Z", z)
        lines = ["def hf%d(gg%d: %s, yy%d: %s) -> %s => gg%d(yy%d)" % (n, n, fty, n, t, t, n, n),
                 "def hr%d := hf%d(\\%s: %s => %s, %s)" % (n, n, z, t, body, self.lit(t))]
        if self.chance(35):
            # parameters with a default value and no declared type: of a function, and of a lambda passed on
            lines.append("def hd%d(xx%d: %s, ff%d := %s) -> %s => xx%d * ff%d" % (n, n, t, n, self.lit(t), t, n, n))
            lines.append("def hq%d := hf%d(\\qa%d: %s, qs%d := %s => qa%d + qs%d, hd%d(%s))" % (n, n, n, t, n, self.lit(t), n, n, n, self.lit(t)))
        if self.chance(40):
            lines.append("def hh%d(gg%d: (%s, %s) -> %s) -> %s => gg%d(%s, %s)" % (n, n, t, t, t, t, n, self.lit(t), self.lit(t)))
            lines.append("def hs%d := hh%d(\\la%d: %s, lb%d: %s => la%d + lb%d)" % (n, n, n, t, n, t, n, n))
        return lines

    def s_tuples(self):
        n = self.uid()
        a, b = self.simple_type(), self.simple_type()
        lines = ["def tt%d: (%s, %s) := (%s, %s)" % (n, a, b, self.lit(a), self.lit(b)),
                 "def (ta%d, tb%d) := tt%d" % (n, n, n)]
        if self.chance(50):
            lines.append("def tf%d(pp%d: (%s, %s)) -> (%s, %s) => pp%d" % (n, n, a, b, a, b, n))
            lines.append("def tr%d := tf%d(tt%d)" % (n, n, n))
        if self.chance(40):
            lines.append("for (tx%d, ty%d) in [(1, 2), (3, 4)] do print(tx%d + ty%d)" % (n, n, n, n))
        return lines

    def s_type_alias(self):
        n = self.uid()
        k = self.pick(["prim", "prim", "tuple", "tuple_class"])
        if k == "prim":
            return ["type Al%d: Int when self %s %d" % (n, self.pick([">", ">=", "<"]), self.i(0, 9))]
        if k == "tuple":
            return ["type Tp%d: (Int, %s) when True" % (n, self.simple_type())]
        return ["class Tc%d: (Int, %s, Str)" % (n, self.simple_type())]

    def s_interface(self):
        n = self.uid()
        t = self.simple_type()
        if self.chance(30):
            # a marker: a type without body and without parent, alone or implemented / refined
            form = self.pick(["alone", "implemented", "refined"])
            lines = ["type Mk%d" % n]
            if form == "implemented":
                lines += ["class Mi%d: Mk%d" % (n, n), "    def mfield%d: %s := %s" % (n, t, self.lit(t)), "def mo%d := Mi%d()" % (n, n)]
            elif form == "refined":
                lines += ["type Mr%d: Mk%d" % (n, n), "class Mi%d: Mr%d" % (n, n), "    def mfield%d: %s := %s" % (n, t, self.lit(t))]
            return lines
        return ["type If%d" % n, "    def need%d(self, pp%d: %s) -> %s" % (n, n, t, t),
                "class Im%d: If%d" % (n, n), "    def need%d(self, pp%d: %s) -> %s => pp%d" % (n, n, t, t, n)]

    def s_generic_header(self):
        n = self.uid()
        return ["class Ga%d[A, C](def gfield%d: Str)" % (n, n),
                "class Gb%d[C, A]: Ga%d[A, C](%s)" % (n, n, self.lit("Str")),
                "    def gother%d: Int := %s" % (n, self.lit("Int"))]

    def s_vararg(self):
        n = self.uid()
        t = self.simple_type()
        lines = ["def va%d(%svararg vs%d: %s) => print(%s)" % (n, ("first%d: Int, " % n if self.chance(50) else ""), n, t,
                                                              self.lit("Int"))]
        if self.chance(40):
            lines += ["class Vc%d" % n, "    def vm%d(self, vararg ms%d: %s) => print(%s)" % (n, n, t, self.lit("Int"))]
        return lines

    def s_pure_with(self):
        n = self.uid()
        lines = ["def pure pf%d(xx%d: Int) -> Int => xx%d + %s" % (n, n, n, self.lit("Int")),
                 "def wr%d := %s" % (n, self.lit("Int")), "def wv%d := %s" % (n, self.lit("Int"))]
        k = self.pick(["as", "as_typed", "plain"])
        if k == "as":
            lines += ["with wr%d as wo%d do" % (n, n), "    def wz%d := pf%d(wo%d) + wv%d" % (n, n, n, n)]
        elif k == "as_typed":
            lines += ["with wr%d as wo%d: Int do" % (n, n), "    def wz%d := pf%d(wo%d) + wv%d" % (n, n, n, n)]
        else:
            lines += ["with wr%d do" % n, "    def wz%d := pf%d(wr%d) + wv%d" % (n, n, n, n)]
        if self.chance(50):
            lines = ["class Wc%d" % n, "    def wm%d(self, wp%d: Int) -> Int =>" % (n, n)] + \
                    ["        " + l for l in lines[1:]] + ["        wp%d" % n]
            lines = ["def pure pf%d(xx%d: Int) -> Int => xx%d + 1" % (n, n, n)] + lines
        return lines

    def s_docstrings(self):
        n = self.uid()
        body = self.pick(["text", "two\n    lines", "with 'quotes' and # hash", "", "tab\there", "trailing newline\n"])
        lines = ["class Dc%d" % n, '    """ class doc %s """' % body.replace("\n    ", "\n    "),
                 "    def dfield%d: Int := %s" % (n, self.lit("Int")),
                 "    def dm%d(self) -> Int =>" % n, '        """ method doc """', "        self.dfield%d" % n]
        if self.chance(50):
            lines.append('def dstr%d := "multi\nline %d"' % (n, n))
        return lines

    def s_imports_sqrt(self):
        n = self.uid()
        where = self.pick(["none", "before", "after", "from_typing_after", "alias", "docstring_not_first", "only_in_one_line_if",
                           "only_in_one_line_if"])
        if where == "docstring_not_first":
            # a top-level doc-string that is not the first statement, after something that needs a support import when the module loads
            first = self.pick(["def sq%d := sqrt 16.0" % n, "def so%d: Int? := None" % n, "type Di%d\n    def dneed%d(self) -> Int" % (n, n)])
            return [first, '""" a doc-string in the middle """', "def dz%d := 1" % n]
        if where == "only_in_one_line_if":
            # the only sqrt of the module sits inside a one-line if that is the value of a definition
            c = self.pick(["True", "False"])
            form = self.pick(["def sv%d := if %s then sqrt 4.0 else 1.0", "def sv%d := if %s then 1.0 else sqrt 9.0",
                              "def sv%d: Float := if %s then sqrt 16.0 else 2.0",
                              "def sv%d := if %s then (if %s then sqrt 4.0 else 3.0) else 1.0".replace("(if %s", "(if True")])
            return [form % (n, c)]
        use = ["def sq%d := sqrt %s" % (n, self.pick(["16.0", "2.0", "(1.0 + 3.0)"]))]
        opt = ["def so%d: Int? := None" % n]
        if where == "before":
            return ["import math"] + use
        if where == "after":
            return use + ["import math"]
        if where == "from_typing_after":
            return opt + ["from typing import Optional"]
        if where == "alias":
            return ["import math as mm%d" % n] + use
        return use + opt

    def s_bitwise_isa(self):
        n = self.uid()
        a, b = self.lit("Int"), self.lit("Int")
        op = self.pick(["_and_", "_or_", "_xor_", "<<", ">>"])
        lines = ["def bw%d := %s %s %s" % (n, a, op, b), "def bn%d := _not_ %s" % (n, a)]
        if self.chance(50):
            lines.append("def bq%d := [1]" % n)
            lines.append("def bi%d := bq%d is bq%d" % (n, n, n))
        if self.chance(30):
            lines += ["def bs%d := %s" % (n, a), "bs%d <<= 1" % n, "bs%d >>= 1" % n]
        return lines

    def s_operators(self):
        n = self.uid()
        ops = self.draw(st.permutations(["+", "-", "*", "<", ">", "="]))[:self.i(1, 3)]
        lines = ["class Op%d(def vv%d: Int)" % (n, n)]
        for op in ops:
            ret = "Bool" if op in "<>=" else "Int"
            lines.append("    def %s(self, oth%d: Int) -> %s => self.vv%d %s oth%d" % (op, n, ret, n, op, n))
        return lines

    def s_nullable(self):
        n = self.uid()
        t = self.simple_type()
        return ["def nn%d: %s? := %s" % (n, t, self.pick(["None", self.lit(t)])),
                "def nd%d: %s := nn%d ? %s" % (n, t, n, self.lit(t)),
                "def nf%d(pp%d: %s?) -> %s => pp%d ? %s" % (n, n, t, t, n, self.lit(t))]

    def s_fstrings(self):
        n = self.uid()
        inner = self.pick(["fv%d" % n, "fv%d + 1" % n, "fv%d * (2 + 3)" % n, "fv%d mod 2" % n, "fv%d ^ 2" % n,
                           'if fv%d > 1 then "big" else "small"' % n])
        return ["def fv%d := %s" % (n, self.lit("Int")), 'def fs%d := "val {%s} end"' % (n, inner), "print(fs%d)" % n]

    SNIPPETS = ["union_annotations", "nullable_union", "builders", "dict_set", "slices", "lambda_hof", "tuples", "type_alias",
                "interface", "generic_header", "vararg", "pure_with", "docstrings", "imports_sqrt", "bitwise_isa", "operators",
                "nullable", "fstrings"]

    def program(self, only=None):
        names = [only] if only else [self.pick(self.SNIPPETS) for _ in range(self.i(1, 4))]
        lines = []
        for s in names:
            lines += getattr(self, "s_" + s)()
        if not only and self.chance(20):
            # a module doc-string as the very first statement (whatever the generator puts at the top of the module - its own
            # imports - has to go around it)
            lines = [self.pick(['""" module doc """', '"""Helpers.\n\nSecond paragraph."""', '""""""'])] + lines
            names = names + ["module_docstring_first"]
        return "\n".join(lines) + "\n", names


@st.composite
def programs(draw, only=None):
    w = W(draw)
    src, names = w.program(only)
    return {"gen": "wide", "src": src, "snippets": names}
