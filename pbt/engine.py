"""Sharded Hypothesis engine shared by all property checks.

A property module exposes a class with

  id            "C01"
  cases         {"quick": n_per_shard, "thorough": n_per_shard}
  rule          text: how cases are generated and what makes one non-trivial
  assumptions   list of strings
  strategy(tier, switches) -> Hypothesis strategy producing a *concrete case*: a JSON-able dict
                that holds the exact input given to mamba plus the oracle's expectation
  check(worker, case, stats) -> None (held) | dict(what=..., …) (violated) | INCONCLUSIVE
  fixed_cases(tier, switches) -> iterable of concrete cases that are always run (catalogue /
                exhaustive parts); optional
  summarize(case) -> small JSON-able sample for the evidence file; optional

A run is a pure function of /repo's tree and VERIF_SEED: every random choice is a Hypothesis
draw, shard s uses seed VERIF_SEED*4096+s, no example database, no deadline.
"""
import hashlib
import json
import multiprocessing as mp
import os
import sys
import time
import traceback

from hypothesis import HealthCheck, Phase, given, seed, settings
from hypothesis.errors import Flaky

try:  # hypothesis >= 6.?? has FlakyFailure as subclass of Flaky
    from hypothesis.errors import FlakyFailure  # noqa: F401
except Exception:  # pragma: no cover
    FlakyFailure = Flaky

from pbt.worker import Worker

VERIF = os.environ.get("VERIF_ROOT", "/verif")
SHRINK_BUDGET = int(os.environ.get("VERIF_SHRINK_CALLS", "60"))
INCONCLUSIVE = {"inconclusive": True}


class _Fail(Exception):
    pass


class _Inconclusive(Exception):
    pass


def case_hash(case):
    blob = json.dumps(case, sort_keys=True, default=str).encode("utf-8")
    return hashlib.sha1(blob).hexdigest()


class Stats:
    """Per-shard counters. `classes` is a free-form histogram; `nontrivial` a set of hashes."""

    def __init__(self, max_samples=4):
        self.evaluations = 0
        self.classes = {}
        self.nontrivial = set()
        self.samples = []
        self.sample_keys = set()
        self.max_samples = max_samples
        self.warnings = []

    def inc(self, key, n=1):
        self.classes[key] = self.classes.get(key, 0) + n

    def mark_nontrivial(self, case, sample=None, key=None):
        h = case_hash(case)[:16]
        self.nontrivial.add(h)
        # keep a few samples, at most one per class key
        k = key if key is not None else len(self.samples)
        if len(self.samples) < self.max_samples and k not in self.sample_keys:
            self.sample_keys.add(k)
            # a pre-summarised sample is kept as is; a raw case is summarised by the property at the end
            self.samples.append({"_s": True, "v": sample} if sample is not None else {"_s": False, "v": case})

    def export(self):
        return {
            "evaluations": self.evaluations,
            "classes": self.classes,
            "nontrivial": sorted(self.nontrivial),
            "samples": self.samples,
            "warnings": self.warnings,
        }


class NullStats(Stats):
    """Used while Hypothesis shrinks: counting stops at the first failure."""

    def inc(self, key, n=1):
        pass

    def mark_nontrivial(self, case, sample=None, key=None):
        pass


def load_known_findings():
    path = os.path.join(VERIF, "known_findings.json")
    if not os.path.exists(path):
        return []
    with open(path) as fh:
        return json.load(fh).get("findings", [])


def open_switches(prop_id):
    """Generator switches (exclusions by construction) of the open findings of a property."""
    out = set()
    for f in load_known_findings():
        if f.get("property") == prop_id and f.get("status") == "open":
            for s in f.get("excluded_by", []) or []:
                out.add(s)
    return out


def _shard(args):
    (modname, clsname, tier, base_seed, shard, nshards, n_examples) = args
    t0 = time.time()
    result = {"shard": shard, "failure": None, "inconclusive": None, "error": None}
    worker = None
    try:
        mod = __import__(modname, fromlist=[clsname])
        prop = getattr(mod, clsname)()
        switches = open_switches(prop.id)
        worker = Worker(cpu_limit=getattr(prop, "cpu_limit", 120.0))
        prop.worker = worker
        stats = Stats()
        result["stats"] = stats
        # 1. fixed catalogue, round-robin over shards
        fixed = getattr(prop, "fixed_cases", None)
        if fixed is not None:
            for i, case in enumerate(fixed(tier, switches)):
                if i % nshards != shard:
                    continue
                stats.evaluations += 1
                stats.inc("fixed_cases")
                f = prop.check(worker, case, stats)
                if f is INCONCLUSIVE or (isinstance(f, dict) and f.get("inconclusive")):
                    result["inconclusive"] = {"case": case, "why": f}
                    break
                if f:
                    result["failure"] = {"case": f.pop("replay_case", case), "failure": f,
                                         "shrunk": False, "origin": "fixed"}
                    break
        # 2. generated search
        if result["failure"] is None and result["inconclusive"] is None and n_examples > 0:
            state = {"fail": None, "seen": False, "inconclusive": None}
            null = NullStats()

            @seed(base_seed * 4096 + shard)
            @settings(max_examples=n_examples, database=None, deadline=None,
                      derandomize=False, suppress_health_check=list(HealthCheck),
                      phases=[Phase.generate, Phase.shrink], report_multiple_bugs=False,
                      print_blob=False)
            @given(prop.strategy(tier, switches))
            def run(case):
                st = null if state["seen"] else stats
                if state["seen"]:
                    # shrinking budget: a bounded number of re-executions after the first failure, so that a failing
                    # run reports within seconds-minutes; candidates beyond the budget count as "not failing"
                    state["shrink_calls"] = state.get("shrink_calls", 0) + 1
                    if state["shrink_calls"] > SHRINK_BUDGET:
                        return
                if not state["seen"]:
                    stats.evaluations += 1
                f = prop.check(worker, case, st)
                if f is INCONCLUSIVE or (isinstance(f, dict) and f.get("inconclusive")):
                    state["inconclusive"] = {"case": case, "why": f}
                    raise _Inconclusive()
                if f:
                    state["seen"] = True
                    state["fail"] = {"case": f.pop("replay_case", case), "failure": f}
                    raise _Fail()

            try:
                run()
            except _Fail:
                pass
            except _Inconclusive:
                pass
            except Flaky:
                # mamba itself behaved differently on a re-run; keep the last failing case
                if state["fail"] is not None:
                    state["fail"]["flaky"] = True
            if state["fail"] is not None:
                result["failure"] = dict(state["fail"], shrunk=True, origin="generated")
            elif state["inconclusive"] is not None:
                result["inconclusive"] = state["inconclusive"]
        result["stats"] = stats.export()
        result["worker_restarts"] = worker.restarts
    except BaseException:  # infrastructure trouble, never a violation
        result["error"] = traceback.format_exc()
        st = result.get("stats")
        result["stats"] = st.export() if isinstance(st, Stats) else None
    finally:
        if worker is not None:
            worker.close()
    result["wall_s"] = time.time() - t0
    return result


def write_replay(prop_id, case, failure, tag=""):
    d = os.path.join(VERIF, "replays", prop_id)
    os.makedirs(d, exist_ok=True)
    h = case_hash(case)[:12]
    path = os.path.join(d, "%s%s.json" % (tag, h))
    with open(path, "w") as fh:
        json.dump({"property": prop_id, "case": case, "failure": failure}, fh, indent=1,
                  default=str)
    return path


def replay_findings(prop, worker):
    """Pinned tier. Returns (known_lines, violations[list of (case, failure, tag)])."""
    known, violations = [], []
    n = 0
    prop.strict = True  # known-finding allow-lists are off while pinned inputs are replayed
    for f in load_known_findings():
        if f.get("property") != prop.id or not f.get("replay"):
            continue
        path = os.path.join(VERIF, f["replay"])
        with open(path) as fh:
            case = json.load(fh)["case"]
        n += 1
        r = prop.check(worker, case, NullStats())
        if f.get("status") == "open":
            if r and not r.get("inconclusive"):
                known.append("KNOWN-FINDING: property=%s %s [%s]" % (prop.id, f["what"], f["id"]))
        else:  # fixed: suppresses nothing
            if r and not r.get("inconclusive"):
                violations.append((case, r, "regress-"))
    # pinned regression cases (past shrunk failures, boundary cases): must pass
    d = os.path.join(VERIF, "regress", prop.id)
    if os.path.isdir(d):
        for name in sorted(os.listdir(d)):
            if not name.endswith(".json"):
                continue
            with open(os.path.join(d, name)) as fh:
                case = json.load(fh)["case"]
            n += 1
            r = prop.check(worker, case, NullStats())
            if r and not r.get("inconclusive"):
                violations.append((case, r, "regress-"))
    prop.strict = False
    return known, violations, n


def run_property(modname, clsname, tier, seed_value, nshards=None):
    t0 = time.time()
    mod = __import__(modname, fromlist=[clsname])
    prop = getattr(mod, clsname)()
    nshards = nshards or int(os.environ.get("VERIF_SHARDS", "16"))
    n_examples = prop.cases[tier]
    if os.environ.get("VERIF_CASES"):
        n_examples = int(os.environ["VERIF_CASES"])

    # pinned tier first
    worker = Worker(cpu_limit=getattr(prop, "cpu_limit", 120.0))
    prop.worker = worker
    try:
        known, pinned_viol, n_pinned = replay_findings(prop, worker)
    finally:
        worker.close()
    for line in known:
        print(line)

    ctx = mp.get_context("fork")
    with ctx.Pool(nshards) as pool:
        results = pool.map(
            _shard,
            [(modname, clsname, tier, seed_value, s, nshards, n_examples) for s in range(nshards)],
            chunksize=1,
        )

    errors = [r["error"] for r in results if r["error"]]
    failures = [r["failure"] for r in results if r["failure"]]
    inconcl = [r["inconclusive"] for r in results if r["inconclusive"]]

    evaluations = n_pinned
    classes, nontrivial, samples, warnings = {}, set(), [], []
    for r in results:
        st = r.get("stats")
        if not st:
            continue
        evaluations += st["evaluations"]
        for k, v in st["classes"].items():
            classes[k] = classes.get(k, 0) + v
        nontrivial.update(st["nontrivial"])
        warnings.extend(st["warnings"])
        for s in st["samples"]:
            if len(samples) < 8:
                samples.append(s)
    for req in getattr(prop, "required_classes", []):
        if classes.get(req, 0) == 0:
            msg = "WARNING: required class %r has count 0 in this run" % req
            warnings.append(msg)
            print(msg)

    violations = []
    for case, failure, tag in pinned_viol:
        violations.append(write_replay(prop.id, case, failure, tag))
    for f in failures:
        violations.append(write_replay(prop.id, f["case"], f["failure"]))

    summarize = getattr(prop, "summarize", None)
    samples = [s["v"] if (s.get("_s") or not summarize) else summarize(s["v"]) for s in samples]
    if not samples:
        samples = ["(no non-trivial sample in this run)"]
    coverage = {
        "evaluations": evaluations,
        "distinct_nontrivial": len(nontrivial),
        "rule": prop.rule,
        "samples": samples,
        "pinned_replays": n_pinned,
        "known_findings_reproduced": len(known),
        "classes": dict(sorted(classes.items())),
        "shards": nshards,
        "cases_per_shard": n_examples,
        "worker_restarts": sum(r.get("worker_restarts", 0) or 0 for r in results),
        "inconclusive": len(inconcl),
        "warnings": sorted(set(warnings))[:20],
    }
    extra = getattr(prop, "coverage_extra", None)
    if extra:
        coverage.update(extra(classes))
    evidence = {
        "property_id": prop.id,
        "tier": tier,
        "seed": seed_value,
        "level": getattr(prop, "level", "exploration"),
        "coverage": coverage,
        "assumptions": list(getattr(prop, "assumptions", [])),
        "wall_s": round(time.time() - t0, 2),
        "violations": len(violations),
    }
    os.makedirs(os.path.join(VERIF, "evidence"), exist_ok=True)
    with open(os.path.join(VERIF, "evidence", prop.id + ".json"), "w") as fh:
        json.dump(evidence, fh, indent=1, default=str)

    print("%s %s seed=%d: evaluations=%d distinct_nontrivial=%d known=%d violations=%d wall=%.1fs"
          % (prop.id, tier, seed_value, evaluations, len(nontrivial), len(known),
             len(violations), time.time() - t0))
    if violations:
        for f in failures[:3]:
            print("  what: %s" % (f["failure"].get("what"),))
        for path in violations:
            print("VIOLATION property=%s replay=%s" % (prop.id, path))
        return 1
    if errors:
        print("INFRASTRUCTURE ERROR (not a violation):")
        print(errors[0])
        return 2
    if inconcl:
        print("INCONCLUSIVE (not a violation): %s" % json.dumps(inconcl[0].get("why"))[:300])
        return 2
    return 0


def replay_file(modname, clsname, path):
    mod = __import__(modname, fromlist=[clsname])
    prop = getattr(mod, clsname)()
    with open(path) as fh:
        data = json.load(fh)
    worker = Worker(cpu_limit=getattr(prop, "cpu_limit", 120.0))
    prop.worker = worker
    prop.strict = True
    try:
        r = prop.check(worker, data["case"], NullStats())
    finally:
        worker.close()
    if r and r.get("inconclusive"):
        print("INCONCLUSIVE: %s" % json.dumps(r)[:500])
        return 2
    if r:
        print(json.dumps(r, indent=1, default=str)[:4000])
        print("VIOLATION property=%s replay=%s" % (prop.id, path))
        return 1
    print("replay passes: %s" % path)
    return 0
