"""C13 — projects: all-or-nothing, mirrored layout, order-independent, non-interfering."""
import hashlib
import itertools
import os
import shutil
import tempfile

from hypothesis import strategies as st

from pbt import pyoracle
from pbt.worker import outcome

WORK = os.path.join(os.environ.get("VERIF_ROOT", "/verif"), "work")
# names of which one is a prefix of a sibling (util.mamba next to util/, core/ next to core-ext/): byte order and path order differ
DIRS = ["", "", "pkg", "pkg/sub", "a.b", "my-dir", "pkg/src", "target", "deep/er/est", "util", "util", "core", "core-ext", "pkg/util"]
STEMS = ["main", "util", "util", "mod_a", "b", "c.d", "x-y", "zz", "Alpha", "core", "core-ext"]
FAULTS = {
    "lex": "def bad := !\n",
    "syntax": "def bad := (1 +\n",
    "type": "def bad: Int := \"text\"\n",
    "undefined": "print(never_defined_anywhere)\n",
}


def file_text(i, uses, own_stmts=True, extras=()):
    """File i defines class K<i>, function fun<i>; `uses` = indices of files whose definitions it uses."""
    lines = []
    for j in uses:
        lines.append("from m%d import K%d" % (j, j))
        lines.append("from m%d import fun%d" % (j, j))
    lines.append("class K%d(def v%d: Int)" % (i, i))
    if i % 2 == 1:
        # a doc-string that spans lines, not the first thing of the file: its line breaks are copied into the output
        lines.append('    """ class %d' % i)
        lines.append("    second line of the doc-string")
        lines.append('    """')
    lines.append("    def get%d(fin self) -> Int => self.v%d + %d" % (i, i, i))
    lines.append("")
    lines.append("def fun%d(x: Int) -> Int => x * %d" % (i, i + 2))
    lines.append("")
    # what makes the generator add imports of its own to THIS file's output (abc, typing, math): none of it may show up in,
    # or be missing from, the output of another file
    for e in extras:
        if e == "interface":
            lines += ["type If%d" % i, "    def need%d(self, q: Int) -> Int" % i, "class Im%d: If%d" % (i, i),
                      "    def need%d(self, q: Int) -> Int => q + %d" % (i, i), ""]
        elif e == "marker":
            lines += ["type Mk%d" % i, ""]
        elif e == "nullable":
            lines += ["def opt%d: Int? := None" % i, "def tup%d: (Int, Str) := (%d, \"t\")" % (i, i)]
        elif e == "callable":
            lines += ["def hof%d(g: (Int) -> Int, u: Int?) -> Int => g(%d)" % (i, i), ""]
        elif e == "sqrt":
            lines += ["def root%d := sqrt %d.0" % (i, i + 1)]
    if own_stmts:
        lines.append("def own%d := K%d(%d)" % (i, i, i))
        lines.append("print(own%d.get%d() + fun%d(1))" % (i, i, i))
    for j in uses:
        lines.append("def o%d_%d := K%d(%d)" % (i, j, j, i + j))
        lines.append("print(o%d_%d.v%d + o%d_%d.get%d())" % (i, j, j, i, j, j))
        lines.append("print(fun%d(%d))" % (j, i))
    return "\n".join(lines) + "\n"


@st.composite
def projects(draw):
    n = draw(st.integers(1, 5))
    # acyclic uses: a random order, each file may use files later in that order (independent of path order)
    order = draw(st.permutations(list(range(n))))
    pos = {f: k for k, f in enumerate(order)}
    files = []
    used_paths = set()
    for i in range(n):
        cands = [j for j in range(n) if pos[j] > pos[i]]
        uses = [j for j in cands if draw(st.integers(0, 99)) < 55]
        d = draw(st.sampled_from(DIRS))
        stem = draw(st.sampled_from(STEMS))
        rel = (d + "/" if d else "") + stem + ".mamba"
        k = 0
        while rel in used_paths:
            k += 1
            rel = (d + "/" if d else "") + stem + str(k) + ".mamba"
        used_paths.add(rel)
        extras = [e for e in ("interface", "marker", "nullable", "callable", "sqrt") if draw(st.integers(0, 99)) < 22]
        files.append({"rel": rel, "uses": uses, "text": file_text(i, uses, True, extras), "extras": extras})
    # files without any definition: zero bytes, only a newline, only a comment (nothing imports them)
    for _ in range(draw(st.sampled_from([0, 0, 1, 1, 2]))):
        d = draw(st.sampled_from(DIRS))
        stem = draw(st.sampled_from(["__init__", "aaa_empty", "m_blank", "zz_none"]))
        rel = (d + "/" if d else "") + stem + ".mamba"
        if rel in used_paths:
            continue
        used_paths.add(rel)
        files.append({"rel": rel, "uses": [], "text": draw(st.sampled_from(["", "", "\n", "# only a comment\n"]))})
    n = len(files)
    fault = None
    if draw(st.integers(0, 99)) < 40:
        fi = draw(st.integers(0, n - 1))
        kind = draw(st.sampled_from(sorted(FAULTS)))
        files[fi]["text"] = files[fi]["text"] + FAULTS[kind]
        fault = {"file": fi, "kind": kind}
    return {
        "files": files, "fault": fault,
        "src_dir": draw(st.sampled_from([None, None, "source", "in.put"])),
        "out_dir": draw(st.sampled_from([None, None, "out", "build.d"])),
        "prepopulated": draw(st.booleans()),
        # history: outputs of an earlier run that were longer than the new ones lie at the same paths
        "stale_long": [draw(st.booleans()) for _ in range(n)],
        # history: after a successful run one file is edited (shorter or longer) and the project is transpiled again
        "second_run": draw(st.sampled_from([None, None, "shorter", "longer", "same"])),
        "edit_file": draw(st.integers(0, n - 1)),
        "annotate": draw(st.booleans()),
        "crlf": draw(st.integers(0, 3)) == 0,
    }


def snapshot(root):
    out = {}
    for dp, dns, fns in os.walk(root):
        for d in dns:
            out[os.path.relpath(os.path.join(dp, d), root) + "/"] = "dir"
        for f in fns:
            p = os.path.join(dp, f)
            with open(p, "rb") as fh:
                out[os.path.relpath(p, root)] = hashlib.sha1(fh.read()).hexdigest()
    return out


def py_rel(rel):
    return rel[:-len(".mamba")] + ".py"


class C13:
    id = "C13"
    cases = {"quick": 40, "thorough": 2500}
    rule = ("generated projects of 1-5 files in nested directories (names with dots and dashes, directories called src/target), "
            "each file defining a class and a function (a fifth each also an interface, a marker type, nullable / tuple / function "
            "annotations, a sqrt: imports the generator adds per file) and using those of other files through `from m import X` (acyclic, "
            "independent of path order), a non-.mamba bystander file and an empty directory; 40% with one faulty file (lexical, "
            "syntax, type, undefined name); default and custom source/output directory names; fresh and pre-populated output "
            "directory (also with longer outputs of an earlier run lying at the output paths); files without any statement (zero "
            "bytes, a newline, a comment); LF and CRLF sources; histories: after a successful run one file is made shorter / longer / "
            "left as it is and the project is transpiled again into the same output directory. Oracle: (1) success writes exactly {rel.py} under the output directory with the "
            "content mamba_to_python returns, touches nothing else, every output compiles; (2) a faulty file gives diagnostics "
            "that name that file and no other and no .py is created or modified; (3) every permutation of the file list (<=120) "
            "gives the same verdict and outputs; (4) adding an unrelated file changes nothing for the others; (5) removing a "
            "file whose definitions are used makes the project fail; (6) after the second run of a history every output again equals "
            "what mamba_to_python returns for the current sources and nothing else changed. Non-trivial: >=2 files with a cross-file use, or a faulty "
            "file; distinct by SHA-1 of the project.")
    assumptions = [
        "the library entry point mamba::transpile_dir is what the binary calls with the parsed -i/-o/-a options (src/main.rs)",
        "work directories live under /verif/work and are removed after each case",
    ]
    strict = False

    def strategy(self, tier, switches):
        return projects()

    def summarize(self, case):
        return {"files": [[f["rel"], f["uses"]] for f in case["files"]], "fault": case["fault"],
                "src_dir": case["src_dir"], "out_dir": case["out_dir"], "first_file": case["files"][0]["text"][:400]}

    def check(self, worker, case, stats):
        os.makedirs(WORK, exist_ok=True)
        root = tempfile.mkdtemp(prefix="c13-", dir=WORK)
        try:
            return self._check(worker, case, stats, root)
        finally:
            shutil.rmtree(root, ignore_errors=True)

    def _check(self, worker, case, stats, root):
        files = case["files"]
        src_name = case["src_dir"] or "src"
        out_name = case["out_dir"] or "target"
        src_root = os.path.join(root, src_name)
        out_root = os.path.join(root, out_name)
        eol = "\r\n" if case.get("crlf") else "\n"
        for f in files:
            p = os.path.join(src_root, f["rel"])
            os.makedirs(os.path.dirname(p), exist_ok=True)
            with open(p, "w", newline="") as fh:
                fh.write(f["text"].replace("\n", eol))
        # bystanders
        with open(os.path.join(src_root, "README.txt"), "w") as fh:
            fh.write("not mamba\n")
        with open(os.path.join(src_root, "notes.mamba.bak"), "w") as fh:
            fh.write("def x := (\n")
        os.makedirs(os.path.join(src_root, "empty_dir"), exist_ok=True)
        if case["prepopulated"]:
            os.makedirs(os.path.join(out_root, "old"), exist_ok=True)
            with open(os.path.join(out_root, "old", "stale.py"), "w") as fh:
                fh.write("stale = 1\n")
            with open(os.path.join(out_root, py_rel(files[0]["rel"]).split("/")[-1]), "w") as fh:
                fh.write("previous = True\n")
            for f, long_ in zip(files, case.get("stale_long") or []):
                if long_:
                    p = os.path.join(out_root, py_rel(f["rel"]))
                    os.makedirs(os.path.dirname(p), exist_ok=True)
                    with open(p, "w") as fh:
                        fh.write("".join("stale_line_%d = %d\n" % (k, k) for k in range(400)))
                    stats.inc("stale_long_output_in_place")
        before = snapshot(root)
        ann = case["annotate"]
        fault = case["fault"]
        nfiles = len(files)
        cross = any(f["uses"] for f in files)
        stats.inc("files:%d" % nfiles)
        if fault:
            stats.inc("fault:" + fault["kind"])
        if cross:
            stats.inc("cross_file_use")
        r = worker.call({"op": "transpile_dir", "dir": root, "src": case["src_dir"], "target": case["out_dir"],
                         "annotate": ann})
        oc = outcome(r)
        if oc not in ("ok", "err"):
            stats.inc("crash_left_to_C03")
            return None
        after = snapshot(root)
        # the in-memory pipeline on the same files, in glob (sorted) order, as transpile_dir reads them
        listed = sorted(files, key=lambda f: f["rel"])
        req_files = [[f["text"].replace("\n", eol), os.path.join(src_root, f["rel"])] for f in listed]
        mem = worker.call({"op": "transpile", "files": req_files, "dir": src_root, "annotate": ann})
        if (fault is not None or nfiles >= 2 and cross):
            stats.mark_nontrivial({"files": [[f["rel"], f["text"]] for f in files], "cfg": [case["src_dir"], case["out_dir"], ann]},
                                  sample=self.summarize(case))
        if fault is None:
            if oc != "ok":
                if self._unstable(worker, req_files, src_root, ann):
                    stats.inc("nondeterministic_left_to_C12")
                    return None
                return {"what": "a project whose files are all valid is rejected", "diagnostics": r.get("err", [])[:3]}
            stats.inc("accepted")
            expected_new = {}
            for f in files:
                expected_new[os.path.join(out_name, py_rel(f["rel"]))] = f
            changed = {p: h for p, h in after.items() if before.get(p) != h}
            removed = [p for p in before if p not in after]
            if removed:
                return {"what": "transpiling removed files: %s" % removed[:5]}
            extra = [p for p in changed if not p.endswith("/") and p not in expected_new]
            if extra:
                return {"what": "files other than one .py per .mamba were created or modified: %s" % sorted(extra)[:5]}
            missing = [p for p in expected_new if p not in after]
            if missing:
                return {"what": "no output written for: %s" % sorted(missing)[:5], "written": sorted(changed)[:20]}
            if "ok" not in mem or len(mem["ok"]) != len(listed):
                return {"inconclusive": True, "why": "in-memory pipeline disagrees on verdict (C12?)", "reply": str(mem)[:300]}
            for f, text in zip(listed, mem["ok"]):
                p = os.path.join(root, out_name, py_rel(f["rel"]))
                with open(p, newline="") as fh:
                    got = fh.read()
                if got != text.replace("\r\n", "\n"):
                    return {"what": "content of %s differs from what mamba_to_python returns for that file" % py_rel(f["rel"]),
                            "written": got[:600], "returned": text[:600]}
                err = pyoracle.compiles(got)
                if err:
                    stats.inc("invalid_python_left_to_C02")
            # (3) permutations of the in-memory list
            base = {f["rel"]: t for f, t in zip(listed, mem["ok"])}
            perms = list(itertools.permutations(range(nfiles)))
            if len(perms) > 24:
                perms = perms[:1] + perms[1::max(1, len(perms) // 23)]
            for perm in perms[1:]:
                pf = [req_files[k] for k in perm]
                pr = worker.call({"op": "transpile", "files": pf, "dir": src_root, "annotate": ann})
                stats.inc("permutations")
                if "ok" not in pr:
                    if self._unstable(worker, pf, src_root, ann):
                        stats.inc("nondeterministic_left_to_C12")
                        return None
                    return {"what": "verdict depends on the order of the file list: order %s is rejected"
                                    % [listed[k]["rel"] for k in perm], "diagnostics": pr.get("err", [])[:2]}
                for k, text in zip(perm, pr["ok"]):
                    if base[listed[k]["rel"]] != text:
                        return {"what": "output of %s depends on the order of the file list" % listed[k]["rel"]}
            # (4) an unrelated file
            extra_file = ["class Unrelated9(def q9: Int)\ndef unrelated_fun9(x: Int) -> Int => x\nprint(unrelated_fun9(1))\n",
                          os.path.join(src_root, "zzz_unrelated.mamba")]
            where = 0 if nfiles % 2 else len(req_files)
            pf = req_files[:where] + [extra_file] + req_files[where:]
            pr = worker.call({"op": "transpile", "files": pf, "dir": src_root, "annotate": ann})
            if "ok" not in pr:
                if self._unstable(worker, pf, src_root, ann):
                    stats.inc("nondeterministic_left_to_C12")
                    return None
                return {"what": "adding an unrelated file changes the verdict", "diagnostics": pr.get("err", [])[:2]}
            outs = pr["ok"][:where] + pr["ok"][where + 1:]
            for f, text in zip(listed, outs):
                if base[f["rel"]] != text:
                    return {"what": "adding an unrelated file changes the output of %s" % f["rel"]}
            # (5) removing a used file
            used = sorted(set(j for f in files for j in f["uses"]))
            if used:
                victim = files[used[0]]["rel"]
                pf = [x for x, f in zip(req_files, listed) if f["rel"] != victim]
                pr = worker.call({"op": "transpile", "files": pf, "dir": src_root, "annotate": ann})
                stats.inc("removal_checked")
                if "ok" in pr:
                    return {"what": "the project is still accepted after removing %s, whose class and function other files use"
                                    % victim}
            # (6) history: edit one file, transpile again into the same output directory
            if case.get("second_run"):
                return self._second_run(worker, case, stats, root, src_root, out_name, listed, eol, ann)
            return None
        # faulty project
        if oc == "ok":
            return {"what": "a project with a %s fault in %s is accepted" % (fault["kind"], files[fault["file"]]["rel"])}
        stats.inc("rejected_faulty")
        changed = {p: h for p, h in after.items() if before.get(p) != h}
        pys = [p for p in changed if p.endswith(".py")]
        if pys:
            return {"what": "Python was written although a file has a %s fault: %s" % (fault["kind"], sorted(pys)[:5])}
        gone = [p for p in before if p not in after]
        if gone:
            return {"what": "failed run removed files: %s" % gone[:5]}
        diags = r.get("err") or []
        if not diags or not all(isinstance(d, str) and d.strip() for d in diags):
            return {"what": "rejection without diagnostics"}
        bad_rel = files[fault["file"]]["rel"]
        text = "\n".join(diags)
        if bad_rel not in text:
            return {"what": "diagnostics do not name the faulty file %s" % bad_rel, "diagnostics": diags[:3]}
        for f in files:
            if f["rel"] != bad_rel and (src_name + "/" + f["rel"]) in text and f["rel"] not in bad_rel:
                return {"what": "diagnostics name %s, which has no fault" % f["rel"], "diagnostics": diags[:3]}
        return None

    def _second_run(self, worker, case, stats, root, src_root, out_name, listed, eol, ann):
        how = case["second_run"]
        f = case["files"][case["edit_file"] % len(case["files"])]
        if how == "shorter":
            lines = f["text"].split("\n")
            keep = [l for l in lines if not (l.startswith("print(") or l.startswith("def own") or l.startswith("def o"))]
            new_text = "\n".join(keep)
        elif how == "longer":
            new_text = f["text"] + "".join("print(%d)\n" % k for k in range(30))
        else:
            new_text = f["text"]
        texts = {g["rel"]: (new_text if g is f else g["text"]) for g in case["files"]}
        with open(os.path.join(src_root, f["rel"]), "w", newline="") as fh:
            fh.write(new_text.replace("\n", eol))
        before = snapshot(root)
        r = worker.call({"op": "transpile_dir", "dir": root, "src": case["src_dir"], "target": case["out_dir"], "annotate": ann})
        stats.inc("second_run:" + how)
        if outcome(r) != "ok":
            if outcome(r) == "err":
                return {"what": "second run after an edit (%s) of %s is rejected" % (how, f["rel"]), "diagnostics": r.get("err", [])[:2]}
            return None
        after = snapshot(root)
        req_files = [[texts[g["rel"]].replace("\n", eol), os.path.join(src_root, g["rel"])] for g in listed]
        mem = worker.call({"op": "transpile", "files": req_files, "dir": src_root, "annotate": ann})
        if "ok" not in mem or len(mem["ok"]) != len(listed):
            return {"inconclusive": True, "why": "in-memory pipeline disagrees on verdict in the second run", "reply": str(mem)[:300]}
        expected = set(os.path.join(out_name, py_rel(g["rel"])) for g in listed)
        changed = [p for p, h in after.items() if before.get(p) != h and not p.endswith("/")]
        extra = [p for p in changed if p not in expected]
        if extra:
            return {"what": "second run created or modified files other than the outputs: %s" % sorted(extra)[:5]}
        for g, text in zip(listed, mem["ok"]):
            p = os.path.join(root, out_name, py_rel(g["rel"]))
            if not os.path.exists(p):
                return {"what": "second run: no output for %s" % g["rel"]}
            with open(p, newline="") as fh:
                got = fh.read()
            if got != text.replace("\r\n", "\n"):
                return {"what": "after a second run (edit: %s of %s) the content of %s is not what mamba_to_python returns for the "
                                "current source" % (how, f["rel"], py_rel(g["rel"])), "written": got[-600:], "returned": text[-600:]}
        return None

    def _unstable(self, worker, files, src_root, ann):
        rr = worker.call({"op": "transpile_rep", "files": files, "dir": src_root, "annotate": ann, "k": 10})
        ocs = set(outcome(x) for x in rr.get("results", []))
        return len(ocs) > 1
