"""Seed programs: the repository's sample files (read from /repo at run time; skipped silently
when absent) plus the small hand-written programs under /verif/pbt/seeds."""
import glob
import os

REPO = os.environ.get("MAMBA_REPO", "/repo")
SEEDS = os.path.join(os.path.dirname(__file__), "seeds")
_cache = {}


def _load(pattern, root):
    out = []
    for p in sorted(glob.glob(pattern, recursive=True)):
        try:
            with open(p, encoding="utf-8") as fh:
                out.append((os.path.relpath(p, root), fh.read()))
        except (OSError, UnicodeDecodeError):
            pass
    return out


def repo_samples(kind=None):
    """kind: 'valid', 'invalid' or None (both). List of (relative path, text)."""
    key = ("repo", kind)
    if key not in _cache:
        root = os.path.join(REPO, "tests", "resource")
        sub = kind if kind else "**"
        _cache[key] = _load(os.path.join(root, sub, "**", "*.mamba"), root) if kind else \
            _load(os.path.join(root, "**", "*.mamba"), root)
    return _cache[key]


def own_seeds():
    if "own" not in _cache:
        _cache["own"] = _load(os.path.join(SEEDS, "*.mamba"), SEEDS)
    return _cache["own"]


def all_seeds():
    return own_seeds() + repo_samples()
