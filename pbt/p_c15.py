"""C15 — renaming user identifiers commutes with transpilation."""
import ast
import builtins
import keyword
import re

from hypothesis import strategies as st

from pbt import apigen, gen, model, widegen
from pbt.worker import outcome

# names CoreGen can emit as user-chosen identifiers: prefix + number
USER_NAME = re.compile(r"\b(?:v|o|fn|p|C|Err|m|f|g|i|e|w|h|err|a)\d+\b")

ORDINARY = ["alpha", "beta", "gamma", "delta", "kappa", "lam", "mu", "nu", "omega", "rho", "sigma", "tau", "zeta", "Widget",
            "Gadget", "Thing", "Shape", "Point", "helper", "compute", "render", "update", "total", "count", "index", "item",
            "value", "result", "buffer", "state", "left", "right", "first", "second", "Outer", "Inner", "Failure", "Problem"]
TRICKY = ["size", "init", "super", "typing", "abc", "Generic", "err", "it", "G0", "T", "x1", "x_1", "other", "cls", "args",
          "kwargs", "object", "new", "main", "name", "file", "input_", "Str_", "Int_", "match_", "case", "type_", "sqrt_",
          "math_", "range_", "self_", "__x", "__name", "_private", "CONST", "l", "O", "I1", "collection_iter", "Iterator",
          "NoneType", "Self", "Type"]
# names that collide with identifiers the generator itself emits into the module (open finding F14): in the pool only
# while that finding's switch is off
CAPTURABLE = ["math", "range", "slice", "isinstance", "int", "str", "float", "bool", "list", "set", "dict", "tuple",
              "len", "abs", "Optional", "Union", "Callable", "NewType", "ABC", "abstractmethod", "Tuple"]
MAMBA_KEYWORDS = {"from", "type", "class", "pure", "as", "import", "forward", "vararg", "def", "fin", "and", "or", "not", "is",
                  "isa", "mod", "sqrt", "while", "for", "if", "else", "match", "continue", "break", "return", "then", "do",
                  "with", "in", "raise", "handle", "when", "pass", "self", "init", "_and_", "_or_", "_xor_", "_not_", "_",
                  "True", "False", "None", "Int", "Str", "Bool", "Float", "Complex", "List", "Set", "Tuple", "Dict", "Any",
                  "Range", "Slice", "Exception", "print", "input", "Callable", "Union", "Collection"}


# names of which one is a prefix of another: a rule keyed on how a spelling begins shows when two of them meet in one program
PREFIXY = ["s", "si", "siz", "size", "sizes", "res", "resu", "result", "results", "x", "x1", "x12", "ab", "abc", "abcd", "it", "item",
           "items", "e", "er", "err", "error", "n", "nu", "num", "numb", "t", "to", "tot", "total", "se", "sel", "selfish", "m",
           "ma", "mat", "mathx", "i", "in_", "ini", "init_"]
API_NAMES = ["ua%d" % i for i in range(1, 60)]
API_WORD = re.compile(r"\b\w*ua\d+\w*\b")
WIDE_WORD = re.compile(widegen.USER_NAME)


CHAIN = "qwertzuiopasdfghjklyxcvbnmqwertzuiopasdfghjklyxcvbnm"


def chain_names(n):
    """n names of which each is a proper prefix of the next: under such a renaming any two identifiers are prefix-related"""
    return [CHAIN[:k] for k in range(1, n + 1)]


def legal_target(name):
    return (re.match(r"^[A-Za-z_][A-Za-z0-9_]*$", name) and name not in MAMBA_KEYWORDS and not keyword.iskeyword(name)
            and name != "_")


@st.composite
def _case(draw, allow_capturable, allow_context_names=True):
    prog = draw(gen.programs({"max_main": 5}))
    src = model.render_program(prog)
    names = sorted(set(USER_NAME.findall(src)), key=lambda s: (len(s), s))
    pool = [n for n in ORDINARY + TRICKY + (CAPTURABLE if allow_capturable else []) if legal_target(n)
            and (allow_context_names or n not in ("Generic", "collection_iter"))]
    order = draw(st.permutations(pool))
    if draw(st.integers(0, 3)) == 0:
        order = list(draw(st.permutations([c for c in chain_names(min(len(names), 40)) if legal_target(c)]))) + list(order)
    mapping = {}
    tricky_used = 0
    k = 0
    for nm in names:
        if draw(st.integers(0, 99)) < 70 and k < len(order):
            tgt = order[k]
            k += 1
            # exception classes and classes stay classes: any legal identifier is allowed as class name
            mapping[nm] = tgt
            if tgt in TRICKY or tgt in CAPTURABLE or CHAIN.startswith(tgt):
                tricky_used += 1
    return {"src": src, "mapping": mapping, "tricky": tricky_used, "annotate": draw(st.booleans())}


@st.composite
def _word_case(draw, kind, allow_capturable, allow_context_names=True):
    """apigen / WideGen programs: every user-chosen identifier is recognisable as a whole word; the renaming maps whole words."""
    if kind == "api":
        src = draw(apigen.programs(names=API_NAMES))["src"]
        words = sorted(set(API_WORD.findall(src)), key=lambda s: (len(s), s))
    else:
        src = draw(widegen.programs())["src"]
        words = sorted(set(WIDE_WORD.findall(src)), key=lambda s: (len(s), s))
    prefixy = draw(st.booleans())
    pool = [n for n in (PREFIXY if prefixy else []) + ORDINARY + TRICKY + (CAPTURABLE if allow_capturable else []) if legal_target(n)
            and (allow_context_names or n not in ("Generic", "collection_iter"))]
    pool = list(dict.fromkeys(pool))
    head = draw(st.permutations(pool[:len(PREFIXY)])) if prefixy else []
    order = list(head) + list(draw(st.permutations(pool[len(head):])))
    if draw(st.integers(0, 3)) == 0:
        order = list(draw(st.permutations([c for c in chain_names(min(len(words), 40)) if legal_target(c)]))) + order
    mapping, tricky_used, k = {}, 0, 0
    for w in words:
        if draw(st.integers(0, 99)) < 75 and k < len(order):
            tgt = order[k]
            k += 1
            if w[0].isupper():
                tgt = tgt[0].upper() + tgt[1:]   # a class stays recognisable as a class for the reader; any identifier is legal
                if not legal_target(tgt) or tgt in mapping.values():
                    continue
            mapping[w] = tgt
            if tgt in TRICKY or tgt in CAPTURABLE or tgt in PREFIXY or CHAIN.startswith(tgt.lower()):
                tricky_used += 1
    return {"src": src, "mapping": mapping, "tricky": tricky_used, "annotate": draw(st.booleans()), "words": kind}


SUFFIXES = ["_1", "_2", "_3", "1", "2", "_", "_0", "__1", "_1_1", "0", "_a", "x"]
SHADOW_LIT = {"Int": ("%d", "print(%s + 1)"), "Float": ("%d.5", "print(%s * 2.0)"), "Str": ('"s%d"', 'print(%s + "t")'),
              "Bool": ("%d > 1", "print(not %s)")}


@st.composite
def _shadow_case(draw):
    """Names that are defined again and again with other types (at top level or in a function, also as a destructured pair),
    every definition followed by a use that needs its type; the renaming gives one name the spelling of ANOTHER name plus a
    suffix a name-mangling scheme might use (`count` next to `count_1`, `count1`, `count_`), or swaps two names whose
    alphabetical order decides nothing."""
    k = draw(st.integers(2, 4))
    names = ["v%d" % (i + 1) for i in range(k)]
    lines, n = [], 0
    for _ in range(draw(st.integers(3, 8))):
        nm = names[draw(st.integers(0, k - 1))]
        ty = draw(st.sampled_from(sorted(SHADOW_LIT)))
        n += 1
        form = draw(st.sampled_from(["def", "def", "annotated", "pair"]))
        if form == "pair":
            other = names[draw(st.integers(0, k - 1))]
            ty2 = draw(st.sampled_from(sorted(SHADOW_LIT)))
            if other == nm:
                continue
            lines.append("def (%s, %s) := (%s, %s)" % (nm, other, SHADOW_LIT[ty][0] % n, SHADOW_LIT[ty2][0] % (n + 1)))
            lines.append(SHADOW_LIT[ty2][1] % other)
        elif form == "annotated":
            lines.append("def %s: %s := %s" % (nm, ty, SHADOW_LIT[ty][0] % n))
        else:
            lines.append("def %s := %s" % (nm, SHADOW_LIT[ty][0] % n))
        lines.append(SHADOW_LIT[ty][1] % nm)
    if draw(st.booleans()):
        lines = ["def fn1(p1: Int) =>"] + ["    " + l for l in lines] + ["fn1(1)"]
    src = "\n".join(lines) + "\n"
    base = draw(st.permutations([t for t in ORDINARY if t[0].islower()]))
    mapping = {nm: base[i] for i, nm in enumerate(names)}
    a, b = draw(st.permutations(names))[:2]
    mapping[a] = mapping[b] + draw(st.sampled_from(SUFFIXES))
    return {"src": src, "mapping": mapping, "tricky": 1, "annotate": draw(st.booleans()), "gen": "shadow"}


def rename_text(text, mapping, words=None):
    if not mapping:
        return text
    rx = {"api": API_WORD, "wide": WIDE_WORD}.get(words, USER_NAME)
    return rx.sub(lambda m: mapping.get(m.group(0), m.group(0)), text)


def identifiers(py):
    out = set()
    for n in ast.walk(ast.parse(py)):
        if isinstance(n, ast.Name):
            out.add(n.id)
        elif isinstance(n, ast.Attribute):
            out.add(n.attr)
        elif isinstance(n, ast.arg):
            out.add(n.arg)
        elif isinstance(n, (ast.FunctionDef, ast.ClassDef)):
            out.add(n.name)
        elif isinstance(n, ast.alias):
            out.add(n.asname or n.name)
        elif isinstance(n, ast.ExceptHandler) and n.name:
            out.add(n.name)
        elif isinstance(n, (ast.MatchAs, ast.MatchStar)) and n.name:
            out.add(n.name)
        elif isinstance(n, ast.keyword) and n.arg:
            out.add(n.arg)
    return out


def _scopes(tab, out):
    out.append(tab)
    for ch in tab.get_children():
        _scopes(ch, out)
    return out


def captures(p0, p1, names):
    """Names g (used by the generator in out(P) = p0) whose uses resolve, in out(rho P) = p1, to a binding made by a
    renamed user name. p0 and p1 have the same ast modulo names, so their scopes correspond by traversal order."""
    import symtable
    s0 = _scopes(symtable.symtable(p0, "<p0>", "exec"), [])
    s1 = _scopes(symtable.symtable(p1, "<p1>", "exec"), [])
    if len(s0) != len(s1):
        return list(names)
    top0, top1 = s0[0], s1[0]

    def module_bound(top, g):
        try:
            sym = top.lookup(g)
        except KeyError:
            return None
        if sym.is_imported():
            return "import"
        if sym.is_assigned() or sym.is_namespace():
            return "user"
        return None

    out = []
    for g in names:
        hit = False
        for a, b in zip(s0, s1):
            try:
                sa = a.lookup(g)
            except KeyError:
                continue
            if not sa.is_referenced():
                continue
            # g is read in this scope of out(P) in its generator role
            try:
                sb = b.lookup(g)
            except KeyError:
                continue
            local0 = sa.is_local() and a.get_type() != "module"
            local1 = (sb.is_local() or sb.is_parameter()) and b.get_type() != "module"
            if local1 and not local0:
                hit = True  # a renamed parameter / local now shadows it
            elif not local1:
                if module_bound(top1, g) == "user" and module_bound(top0, g) != "user":
                    hit = True  # a renamed module-level definition now shadows the import / builtin
        if hit:
            out.append(g)
    return out


class C15:
    id = "C15"
    cases = {"quick": 110, "thorough": 8000}
    rule = ("CoreGen programs, API-shaped programs (classes whose fields and methods are mixed in any order, operators, interfaces) and "
            "WideGen programs (builders, with, lambdas, unions, ...) whose user-chosen names all have the form prefix+number (disjoint from everything the generator "
            "emits) and an injective renaming of ~70% of them into a pool of ordinary names and names that resemble internal or "
            "Python-special names (size, init, super, typing, abc, Optional, Union, Callable, NewType, ABC, abstractmethod, "
            "Generic, err, it, G0, T, x1, x_1, cls, args, object, Tuple, Any, _private, ...) and, in half of the API / WideGen cases, chains "
            "of names of which one is a prefix of the next (s, si, siz, size, ...; res, result, results), and in a quarter of all cases a "
            "renaming under which ANY two renamed identifiers are prefix-related (q, qw, qwe, qwer, ...); a fifth of the cases are shadow "
            "programs (names re-defined with other types, also as destructured pairs) where one name is renamed to ANOTHER name plus a "
            "mangling-style suffix (count / count_1 / count1 / count_); Mamba keywords, documented specials "
            "and Python hard keywords excluded. The renaming is applied to the Mamba text and, for comparison, to the Python text. "
            "Oracle: (a) same verdict; (b) ast(rename(out(P))) == ast(out(rename P)); (c) no capture: no target name that the "
            "renamed program binds is an identifier that out(P) uses without P having chosen it. Non-trivial: accepted and >=1 "
            "name moved into the tricky pool; distinct by SHA-1 of source+mapping.")
    assumptions = ["user names are recognised by their prefix+number form, also inside interpolated strings",
                   "names the generator emits for itself are read off out(P): every identifier of out(P) that is not a user name of P"]
    strict = False
    allow_capturable = False

    def strategy(self, tier, switches):
        # open findings F14 (capture of math/range/...) and F40 (names of context classes) remove names from the pool
        self.allow_capturable = "c15.no_capturable_names" not in switches
        ctx_names = "c15.no_context_class_names" not in switches
        return st.one_of(_case(self.allow_capturable, ctx_names), _case(self.allow_capturable, ctx_names),
                         _word_case("api", self.allow_capturable, ctx_names), _word_case("wide", self.allow_capturable, ctx_names),
                         _shadow_case())

    def summarize(self, case):
        return {"mapping": case["mapping"], "annotate": case["annotate"], "src": case["src"][:700]}

    def _stable(self, worker, src, ann, first):
        rr = worker.call({"op": "transpile_rep", "files": [[src, None]], "dir": "", "annotate": ann, "k": 10})
        return all(outcome(x) == first for x in rr.get("results", []))

    def check(self, worker, case, stats):
        src, mapping, ann = case["src"], case["mapping"], case["annotate"]
        words = case.get("words")
        stats.inc("gen:" + (words or case.get("gen") or "core"))
        rsrc = rename_text(src, mapping, words)
        r0 = worker.transpile1(src, ann)
        r1 = worker.transpile1(rsrc, ann)
        o0, o1 = outcome(r0), outcome(r1)
        if o0 not in ("ok", "err") or o1 not in ("ok", "err"):
            stats.inc("crash_left_to_C03")
            return None
        if o0 != o1:
            if not (self._stable(worker, src, ann, o0) and self._stable(worker, rsrc, ann, o1)):
                stats.inc("nondeterministic_left_to_C12")
                return None
            return {"what": "verdict changes under renaming %s: original=%s renamed=%s"
                            % ({k: v for k, v in mapping.items()}, o0, o1),
                    "renamed_source": rsrc, "diagnostics": (r0.get("err") or r1.get("err"))[:2]}
        if o0 == "err":
            stats.inc("rejected_both")
            return None
        stats.inc("accepted_both")
        if case.get("tricky"):
            stats.mark_nontrivial({"s": src, "m": mapping}, sample=self.summarize(case))
        p0, p1 = r0["ok"][0], r1["ok"][0]
        try:
            d_renamed = ast.dump(ast.parse(rename_text(p0, mapping, words)))
            d_direct = ast.dump(ast.parse(p1))
            ids0 = identifiers(p0)
        except SyntaxError:
            stats.inc("invalid_python_left_to_C02")
            return None
        if d_renamed != d_direct:
            return {"what": "output of the renamed program is not the renamed output", "mapping": mapping,
                    "python_original": p0, "python_renamed_program": p1}
        # user-chosen = every identifier-like word of the Mamba source (msg, self, Exception, ... included)
        user = set(re.findall(r"[A-Za-z_][A-Za-z0-9_]*", src))
        generator_names = ids0 - user
        bound_targets = set(mapping[n] for n in mapping if n in ids0 or n in user)
        suspects = sorted(t for t in bound_targets if t in generator_names)
        captured = captures(p0, p1, suspects) if suspects else []
        if suspects and not captured:
            stats.inc("same_spelling_in_another_scope")
        if captured:
            return {"what": "renamed user name(s) %s coincide with identifiers the generator itself uses in this module"
                            % captured, "mapping": mapping, "python_renamed_program": p1}
        return None
