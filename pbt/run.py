"""Entry point: python3-vt -m pbt.run <ID> quick|thorough   |   python3-vt -m pbt.run <ID> --replay <file>"""
import os
import sys

REGISTRY = {
    "C01": ("pbt.p_c01", "C01"),
    "C02": ("pbt.p_c02", "C02"),
    "C03": ("pbt.p_c03", "C03"),
    "C04": ("pbt.p_c04", "C04"),
    "C05": ("pbt.p_c05", "C05"),
    "C06": ("pbt.p_c06", "C06"),
    "C07": ("pbt.p_c07", "C07"),
    "C08": ("pbt.p_c08", "C08"),
    "C09": ("pbt.p_c09", "C09"),
    "C10": ("pbt.p_c10", "C10"),
    "C11": ("pbt.p_c11", "C11"),
    "C12": ("pbt.p_c12", "C12"),
    "C13": ("pbt.p_c13", "C13"),
    "C14": ("pbt.p_c14", "C14"),
    "C15": ("pbt.p_c15", "C15"),
    "C16": ("pbt.p_c16", "C16"),
    "C17": ("pbt.p_c17", "C17"),
    "C18": ("pbt.p_c18", "C18"),
    "C19": ("pbt.p_c19", "C19"),
    "C20": ("pbt.p_c20", "C20"),
}


def main(argv):
    if len(argv) < 3:
        print(__doc__)
        return 2
    pid = argv[1]
    if pid not in REGISTRY:
        print("unknown property %s" % pid)
        return 2
    mod, cls = REGISTRY[pid]
    from pbt import engine
    if argv[2] == "--replay":
        return engine.replay_file(mod, cls, argv[3])
    tier = argv[2]
    if tier not in ("quick", "thorough"):
        print("tier must be quick or thorough")
        return 2
    seed = int(os.environ.get("VERIF_SEED", "0") or 0)
    return engine.run_property(mod, cls, tier, seed)


if __name__ == "__main__":
    sys.exit(main(sys.argv))
