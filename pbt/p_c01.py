"""C01 — accepted programs keep their meaning when run as the emitted Python."""
from hypothesis import strategies as st

from pbt import gen, model, pyoracle
from pbt.worker import outcome


def build_case(prog, excluded=None):
    src = model.render_program(prog)
    try:
        ref = model.Interp(prog).run()
    except model.Budget:
        return {"discard": "reference step budget", "src": src}
    except model.Unsupported as e:
        return {"discard": "reference refuses: %s" % e, "src": src}
    return {"src": src, "expect": {"out": ref["out"], "exc": ref["exc"]}, "ref_steps": ref["steps"],
            "executed": ref["executed"], "excluded": prog.get("excluded", {})}


def case_strategy(profile):
    return gen.programs(profile).map(build_case)


def profile_from(switches):
    prof = {}
    for s in switches:
        if s.startswith("c01.") or s.startswith("gen."):
            prof[s[4:]] = True
    return prof


TRIVIAL_KINDS = {"print", "def"}


class C01:
    id = "C01"
    cases = {"quick": 150, "thorough": 6000}
    rule = ("CoreGen programs (type-directed, constructive; classes with def/plain arguments, parents, body fields, "
            "getters and mutators; exception hierarchies of depth <=3; functions with defaults, implicit return through "
            "if/match/handle tails, raise lists; statements: print, def (annotated or inferred), tuple def, :=, augmented "
            "assignment, if/else, while, for over exclusive/inclusive ranges with +/- step and literal/variable/compound "
            "bounds, for over list/str, match, field updates, handle as statement and as initialiser) rendered with full "
            "parenthesisation and transpiled with annotate off and on. Oracle: the emitted module is executed in-process "
            "(captured print, settrace line budget = 50 x reference steps + 2000) and must print the same strings and end "
            "with the same uncaught exception class as the reference interpreter of pbt/model.py. Non-trivial: accepted "
            "under at least one setting, the reference prints >=1 value and executed >=1 construct other than print/def "
            "of a literal; distinct by SHA-1 of the source.")
    assumptions = [
        "S1-S12 at the top of pbt/model.py (operators are CPython's on the mapped primitives, documented range/if/match/"
        "function/class/handle semantics)",
        "constructs whose meaning the docs leave open are not generated (descending inclusive ranges, unparenthesised "
        "chains of equal precedence, printing sets/objects, definitions in both branches used afterwards)",
        "a rejected program is not a C01 failure (C05 owns over-rejection)",
    ]
    strict = False

    def strategy(self, tier, switches):
        return case_strategy(profile_from(switches))

    def summarize(self, case):
        return {"src": case.get("src", "")[:1200], "expect": case.get("expect")}

    def check(self, worker, case, stats):
        if "discard" in case:
            stats.inc("discarded:" + case["discard"].split(":")[0])
            return None
        src, exp = case["src"], case["expect"]
        for k, v in (case.get("excluded") or {}).items():
            stats.inc("excluded_known:" + k, v)
        accepted = 0
        for annotate in (False, True):
            r = worker.transpile1(src, annotate)
            oc = outcome(r)
            if oc != "ok":
                stats.inc("rejected" if oc == "err" else "crash_left_to_C03")
                if oc == "err":
                    first = (r["err"][0].split("\n")[0] if r["err"] else "")[:60]
                    stats.inc("reject_reason:" + first)
                continue
            accepted += 1
            py = r["ok"][0]
            got = pyoracle.run_module(py, 50 * case["ref_steps"] + 2000)
            if got["compile_error"]:
                stats.inc("invalid_python_left_to_C02")
                continue
            if got["budget"]:
                return {"what": "emitted Python runs past the step budget while the reference terminates "
                                "(annotate=%s)" % annotate, "python": py, "expected": exp}
            if got["out"] != exp["out"] or got["exc"] != exp["exc"]:
                return {"what": "behaviour differs from the reference (annotate=%s): expected out=%r exc=%r, got out=%r exc=%r"
                                % (annotate, exp["out"][:12], exp["exc"], got["out"][:12], got["exc"]),
                        "python": py, "expected": exp, "got": got, "annotate": annotate}
        stats.inc("accepted_settings:%d" % accepted)
        if accepted:
            for k, v in case.get("executed", {}).items():
                stats.inc("executed:" + k.split(":")[0])
            kinds = set(k.split(":")[0] for k in case.get("executed", {}))
            if exp["out"] and kinds - TRIVIAL_KINDS:
                stats.mark_nontrivial({"src": src}, sample=self.summarize(case))
        return None
