"""C05 — declared signatures are enforced: conforming uses pass, others are rejected."""
from hypothesis import strategies as st

from pbt import sites
from pbt.worker import outcome

USE_KINDS = ["call_stmt", "call_init", "call_infer", "call_nested", "method", "ctor", "init", "init_shadow", "return",
             "return_branch", "return_explicit"]
MUTATIONS = ["none", "none", "too_many", "too_few", "bad_arg", "bad_result", "bad_value"]


@st.composite
def _signature(draw, name):
    n = draw(st.integers(0, 3))
    params = []
    ndef = draw(st.integers(0, n))
    for i in range(n):
        t = draw(st.sampled_from(sites.TYPES))
        d = None
        if i >= n - ndef and t in sites.PRIMS:
            d = {"Int": "7", "Float": "1.5", "Str": '"d"', "Bool": "False"}[t]
        elif i >= n - ndef:
            # defaults only on a primitive suffix
            for p in params:
                p["default"] = None
        params.append({"name": "p%d" % i, "type": t, "default": d})
    # defaults must be a suffix
    seen = False
    for p in params:
        if p["default"] is not None:
            seen = True
        elif seen:
            for q in params:
                q["default"] = None
            break
    ret = draw(st.sampled_from([None, "Int", "Float", "Str", "Bool", "A", "B"]))
    return {"name": name, "params": params, "ret": ret}


def render_sig(sig, self_kw=None, indent=""):
    ps = ([self_kw] if self_kw else []) + ["%s: %s%s" % (p["name"], p["type"], " := " + p["default"] if p["default"] else "")
                                           for p in sig["params"]]
    head = "%sdef %s(%s)" % (indent, sig["name"], ", ".join(ps))
    if sig["ret"]:
        return "%s -> %s => %s" % (head, sig["ret"], sites.VALUES[sig["ret"]][0])
    return "%s => print(0)" % head


@st.composite
def _args(draw, sig, mutation):
    """-> (list of argument texts, applied mutation or None if the mutation is impossible here)"""
    params = sig["params"]
    required = len([p for p in params if p["default"] is None])
    n = draw(st.integers(required, len(params)))
    args = []
    for p in params[:n]:
        t = draw(st.sampled_from(sites.conforming_types(p["type"])))
        args.append(sites.value(draw, t, p["type"]))
    if mutation == "too_many":
        args = [sites.value(draw, draw(st.sampled_from(sites.conforming_types(p["type"]))), p["type"]) for p in params]
        args.append(sites.value(draw, draw(st.sampled_from(sorted(sites.VALUES)))))
        return args, "too_many"
    if mutation == "too_few":
        if required == 0:
            return args, None
        k = draw(st.integers(0, required - 1))
        return args[:k], "too_few"
    if mutation == "bad_arg":
        cands = [i for i, p in enumerate(params[:n]) if sites.DEFINITE_MISMATCH[p["type"]]]
        if not cands:
            return args, None
        i = cands[draw(st.integers(0, len(cands) - 1))]
        bad_t = draw(st.sampled_from(sites.DEFINITE_MISMATCH[params[i]["type"]]))
        args[i] = sites.value(draw, bad_t)
        return args, "bad_arg"
    return args, None


@st.composite
def _case(draw):
    kind = draw(st.sampled_from(USE_KINDS))
    mutation = draw(st.sampled_from(MUTATIONS))
    position = draw(st.sampled_from(sites.POSITIONS))
    defs, stmts = [], []
    applied = None
    if kind in ("call_stmt", "call_init", "call_infer", "call_nested"):
        sig = draw(_signature("target"))
        if kind != "call_stmt" and sig["ret"] is None:
            sig["ret"] = "Int"
        defs.append(render_sig(sig))
        args, applied = draw(_args(sig, mutation if mutation in ("too_many", "too_few", "bad_arg") else "none"))
        call = "target(%s)" % ", ".join(args)
        if kind == "call_stmt":
            stmts = [call]
        elif kind == "call_init":
            want = sig["ret"]
            if mutation == "bad_result" and sites.DEFINITE_MISMATCH[want]:
                want = draw(st.sampled_from([t for t in sites.DEFINITE_MISMATCH[want]
                                             if not sites.subtype(sig["ret"], t)]))
                applied = "bad_result"
            else:
                want = draw(st.sampled_from([t for t in sites.TYPES if sites.subtype(sig["ret"], t)]))
            stmts = ["def res: %s := %s" % (want, call)]
        elif kind == "call_infer":
            stmts = ["def res := %s" % call]
        else:
            defs.append("def wrap(w: %s) -> Int => 1" % draw(st.sampled_from([t for t in sites.TYPES
                                                                             if sites.subtype(sig["ret"], t)])))
            stmts = ["def res: Int := wrap(%s)" % call]
    elif kind == "method":
        sig = draw(_signature("tm"))
        defs += ["class Tgt(def tv: Int)", render_sig(sig, draw(st.sampled_from(["self", "fin self"])), "    "),
                 "def tobj := Tgt(1)"]
        args, applied = draw(_args(sig, mutation if mutation in ("too_many", "too_few", "bad_arg") else "none"))
        call = "tobj.tm(%s)" % ", ".join(args)
        stmts = [call] if (sig["ret"] is None or draw(st.booleans())) else ["def res: %s := %s" % (sig["ret"], call)]
    elif kind == "ctor":
        n = draw(st.integers(1, 3))
        cargs = [{"name": "c%d" % i, "type": draw(st.sampled_from(sites.PRIMS + ["A", "Any"])), "default": None}
                 for i in range(n)]
        sig = {"name": "Tgt", "params": cargs, "ret": "Tgt"}
        defs.append("class Tgt(%s)" % ", ".join("%s%s: %s" % ("def " if draw(st.booleans()) else "", c["name"], c["type"])
                                                 for c in cargs))
        args, applied = draw(_args(sig, mutation if mutation in ("too_many", "too_few", "bad_arg") else "none"))
        stmts = [draw(st.sampled_from(["def res := Tgt(%s)", "def res: Tgt := Tgt(%s)", "Tgt(%s)"])) % ", ".join(args)]
    elif kind == "init":
        t = draw(st.sampled_from(sites.TYPES))
        if mutation == "bad_value" and sites.DEFINITE_MISMATCH[t]:
            x = draw(st.sampled_from(sites.DEFINITE_MISMATCH[t]))
            applied = "bad_value"
        else:
            x = draw(st.sampled_from(sites.conforming_types(t)))
        stmts = ["def res: %s := %s" % (t, sites.value(draw, x, t))]
        if draw(st.booleans()) and applied is None and t in sites.PRIMS:
            stmts.append("res := %s" % sites.value(draw, draw(st.sampled_from(sites.conforming_types(t))), t))
    elif kind == "init_shadow":
        # an annotated definition that re-defines a visible name and mentions the old variable in its initialiser
        s0 = draw(st.sampled_from(["Int", "Float", "Str", "Bool", "A", "B"]))
        t = draw(st.sampled_from(sites.TYPES))
        form = draw(st.sampled_from(["bare", "call", "call", "method", "ctor_field"]))
        if form == "bare":
            r, init = s0, "res"
        elif form == "call":
            r = draw(st.sampled_from(["Int", "Float", "Str", "Bool", "A", "B"]))
            defs.append("def conv(w: %s) -> %s => %s" % (s0, r, sites.VALUES[r][0]))
            init = "conv(res)"
        elif form == "method":
            r = draw(st.sampled_from(["Int", "Float", "Str", "Bool", "A", "B"]))
            defs += ["class Cv(def cv: Int)", "    def conv(fin self, w: %s) -> %s => %s" % (s0, r, sites.VALUES[r][0]),
                     "def cobj := Cv(1)"]
            init = "cobj.conv(res)"
        else:
            r = "Int"
            defs += ["class Cw(def cw: %s)" % s0, "    def size(fin self) -> Int => 1"]
            init = "Cw(res).size()"
        conforms = sites.subtype(r, t)
        if not conforms and r not in sites.DEFINITE_MISMATCH[t]:
            t = r  # not a definite mismatch (e.g. Int for Float parameter rules): keep to the clear cases
            conforms = True
        if not conforms:
            applied = "bad_value_in_shadowing_definition"
        stmts = ["def res: %s := %s" % (s0, sites.VALUES[s0][0]), "def res: %s := %s" % (t, init)]
        if conforms and t in sites.PRIMS and draw(st.booleans()):
            stmts.append("def keep: %s := res" % t)
    else:
        # return sites live in function / method bodies; the position wraps the *call*
        rts = ["Int", "Float", "Str", "Bool", "A", "Any"]
        if "no_any_return" in sites.SWITCHES:
            rts.remove("Any")  # open finding F42
            sites.EXCLUDED["no_any_return"] = sites.EXCLUDED.get("no_any_return", 0) + 1
        r = draw(st.sampled_from(rts))
        good = sites.value(draw, draw(st.sampled_from(sites.conforming_types(r))), r)
        bad = None
        if mutation in ("bad_value", "bad_result") and sites.DEFINITE_MISMATCH[r]:
            bad = sites.value(draw, draw(st.sampled_from(sites.DEFINITE_MISMATCH[r])))
            applied = "bad_return"
        v = bad if bad is not None else good
        in_method = draw(st.booleans())
        indent = "    " if in_method else ""
        head = "%sdef rf(%srp: Int) -> %s =>" % (indent, "fin self, " if in_method else "", r)
        if kind == "return":
            body = ["    " + v]
        elif kind == "return_branch":
            other = sites.value(draw, draw(st.sampled_from(sites.conforming_types(r))), r)
            first = draw(st.booleans())
            body = ["    if rp > 0 then", "        " + (v if first else other), "    else", "        " + (other if first else v)]
        else:
            body = ["    if rp > 0 then return " + v, "    " + good]
        lines = [head] + [indent + b for b in body]
        if in_method:
            defs += ["class RHost(def rv: Int)"] + lines + ["def robj := RHost(1)"]
            stmts = ["robj.rf(1)"]
        else:
            defs += lines
            stmts = ["rf(1)"]
    body = sites.place(position, stmts)
    return {"src": sites.program(defs, body), "kind": kind, "position": position, "mutation": applied,
            "expect": "err" if applied else "ok"}


# ------------------------------------------------------------------------------------------------------------------------------
# NestGen: uses of annotated definitions across deeply nested blocks, and calls through class chains with overrides
# ------------------------------------------------------------------------------------------------------------------------------
NEST_WORLD = """class A(def a: Int)
    def ma(fin self, k: Int) -> Int => k + self.a
class B(bx: Int): A(bx)
class U(def u: Str)
class HErr(msg: Str): Exception(msg)
def hr() -> Int raise [HErr] => 1
def si(p: Int) => print(p)
def sf(p: Float) => print(p)
def ss(p: Str) => print(p)
def sb(p: Bool) => print(p)
def sa(p: A) => print(1)
def su(p: U) => print(1)
def vi: Int := 3
def vb: Bool := True
"""
NEST_LIT = {"Int": ["1", "7", "vi"], "Float": ["2.5", "0.5"], "Str": ['"s"', '"tt"'], "Bool": ["True", "vb"], "A": ["A(1)", "A(2)"],
            "B": ["B(3)"], "U": ['U("u")']}
NEST_SINK = {"Int": "si", "Float": "sf", "Str": "ss", "Bool": "sb", "A": "sa", "U": "su"}


class _Nest:
    def __init__(self, draw, fault):
        self.draw = draw
        self.lines = []
        self.n = 0
        self.uses = []          # (line index, sink type, variable, variable type)
        self.fault = fault
        self.budget = 14

    def i(self, lo, hi):
        return self.draw(st.integers(lo, hi))

    def pick(self, seq):
        seq = list(seq)
        return seq[self.i(0, len(seq) - 1)]

    def emit(self, ind, text):
        self.lines.append("    " * ind + text)
        return len(self.lines) - 1

    def block(self, ind, scope, depth, then_depth=0):
        scope = dict(scope)
        for _ in range(self.i(1, 3)):
            self.stmt(ind, scope, depth, then_depth)

    def stmt(self, ind, scope, depth, then_depth=0):
        self.budget -= 1
        opts = ["def", "def", "use", "use", "use"]
        if depth < 4 and self.budget > 0:
            opts += ["if_else", "if_else", "if_else", "if", "match", "for", "while", "handle"]
        if depth < 2 and self.budget > 0:
            opts += ["then_chain", "then_chain"]
        k = self.pick(opts)
        if "no_deep_then_side_nesting" in sites.SWITCHES and (k == "then_chain" or (k in ("if_else", "if") and then_depth >= 2)):
            # open finding F69: below three ifs nested on the then side, constraints of later else branches are lost
            sites.EXCLUDED["no_deep_then_side_nesting"] = sites.EXCLUDED.get("no_deep_then_side_nesting", 0) + 1
            k = "use" if scope else "def"
        if k == "def" or (k == "use" and not scope):
            self.n += 1
            t = self.pick(sorted(NEST_LIT))
            name = "n%d" % self.n
            self.emit(ind, "def %s: %s := %s" % (name, t, self.pick(NEST_LIT[t])))
            scope[name] = t
        elif k == "use":
            v = self.pick(sorted(scope))
            vt = scope[v]
            sinks = [t for t in NEST_SINK if sites.subtype(vt, t)]
            if "no_widening_reuse" in sites.SWITCHES and len(sinks) > 1:
                # open finding F68 (root cause R1): one variable used at its own type and at a supertype is rejected
                sites.EXCLUDED["no_widening_reuse"] = sites.EXCLUDED.get("no_widening_reuse", 0) + 1
                sinks = [t for t in sinks if t == vt] or sinks[:1]
            t = self.pick(sinks)
            form = self.pick(["call", "call", "init", "method"]) if t == "Int" else self.pick(["call", "call", "init"])
            self.n += 1
            if form == "call":
                idx = self.emit(ind, "%s(%s)" % (NEST_SINK[t], v))
            elif form == "init":
                idx = self.emit(ind, "def m%d: %s := %s" % (self.n, t, v))
            else:
                idx = self.emit(ind, "def m%d: Int := A(1).ma(%s)" % (self.n, v))
            self.uses.append((idx, t, v, vt, form, dict(scope)))
        elif k == "then_chain":
            # if-else nested on the THEN side, a definition at an outer level used in the else branch of an inner level
            levels = self.i(2, 4)
            self.budget -= levels
            inner = dict(scope)
            for l in range(levels):
                self.emit(ind + l, "if vi > %d then" % self.i(0, 5))
                if self.i(0, 1) or l == 0:
                    self.n += 1
                    t = self.pick(sorted(NEST_LIT))
                    self.emit(ind + l + 1, "def n%d: %s := %s" % (self.n, t, self.pick(NEST_LIT[t])))
                    inner["n%d" % self.n] = t
                scopes_at = dict(inner)
                if l == levels - 1:
                    self.stmt(ind + l + 1, dict(inner), depth + l + 1)
                else:
                    pass
                # remember the scope of this level for its else branch (emitted when unwinding)
                setattr(self, "_tc_%d_%d" % (id(scope), l), scopes_at)
            for l in range(levels - 1, -1, -1):
                self.emit(ind + l, "else")
                sc = getattr(self, "_tc_%d_%d" % (id(scope), l))
                # the else branch of level l sees what was defined at levels 0..l-1 and before (not level l's own then-definitions)
                visible = {n: t for n, t in sc.items()}
                if l < levels and ("n%d" % self.n) in visible and False:
                    pass
                # definitions made in the then-branch of level l itself are not visible in its else branch: recompute
                before = getattr(self, "_tc_%d_%d" % (id(scope), l - 1)) if l > 0 else dict(scope)
                self.stmt(ind + l + 1, dict(before), depth + l + 1)
                if before:
                    self.stmt(ind + l + 1, dict(before), depth + l + 1)
            self.emit(ind, "if vi > %d then" % self.i(0, 5))
            self.block(ind + 1, scope, depth + 1, then_depth + 1)
            if k == "if_else":
                self.emit(ind, "else")
                self.block(ind + 1, scope, depth + 1)
        elif k == "match":
            self.emit(ind, "match vi")
            for l in sorted(set(self.i(0, 4) for _ in range(self.i(1, 2)))):
                self.emit(ind + 1, "%d =>" % l)
                self.block(ind + 2, scope, depth + 1)
            self.emit(ind + 1, "_ =>")
            self.block(ind + 2, scope, depth + 1)
        elif k == "for":
            self.n += 1
            self.emit(ind, "for q%d in 0 .. 2 do" % self.n)
            inner = dict(scope)
            inner["q%d" % self.n] = "Int"
            self.block(ind + 1, inner, depth + 1)
        elif k == "while":
            self.emit(ind, "while vi > 5 do")
            self.block(ind + 1, scope, depth + 1)
        else:
            self.emit(ind, "hr() handle")
            self.emit(ind + 1, "herr%d: HErr =>" % self.budget)
            self.block(ind + 2, scope, depth + 1)
            self.emit(ind + 2, "print(0)")

    def program(self):
        where = self.pick(["top", "fun", "method"])
        if where == "top":
            self.block(0, {}, 0)
            body, off = self.lines, 0
        elif where == "fun":
            self.block(1, {"fp": "Int"}, 0)
            body, off = ["def host(fp: Int) =>"] + self.lines + ["host(1)"], 1
        else:
            self.block(2, {"mp": "Str"}, 0)
            body, off = ["class Host(def hv: Int)", "    def hm(self, mp: Str) =>"] + self.lines + ['Host(1).hm("x")'], 2
        self.uses = [(u[0] + off,) + tuple(u[1:]) for u in self.uses]
        planted = None
        if self.fault and self.uses:
            idx, t, v, vt, form, scope = self.pick(self.uses)
            wrong = self.pick(sites.DEFINITE_MISMATCH[t])
            bad = self.pick(NEST_LIT[wrong]) if wrong in NEST_LIT else '"zz"'
            # the wrong value stands where the variable stood: a literal (the fault is local to this use) or another visible
            # variable whose declared type does not conform (the fault needs what was declared levels above)
            others = sorted(n for n, nt in scope.items() if nt in sites.DEFINITE_MISMATCH[t] and n != v)
            if others and self.i(0, 2) > 0:
                bad = self.pick(others)
                wrong = scope[bad]
                form = form + "_wrong_variable"
            line = body[idx]
            body[idx] = line[::-1].replace(v[::-1], bad[::-1], 1)[::-1]
            planted = {"line": idx + 1 + NEST_WORLD.count("\n"), "required": t, "given": wrong, "form": form, "where": where,
                       "indent": (len(line) - len(line.lstrip())) // 4}
        return NEST_WORLD + "\n".join(body) + "\n", planted


@st.composite
def _nest_case(draw):
    fault = draw(st.integers(0, 2)) > 0
    g = _Nest(draw, fault)
    src, planted = g.program()
    return {"gen": "nest", "src": src, "expect": "err" if planted else "ok", "fault": planted, "kind": "nest", "position": "nest",
            "mutation": planted["form"] if planted else None}


def _chain_world(draw):
    """A chain of 3-4 classes; a method is introduced at one level and overridden at a lower level with another parameter type
    (and possibly another result type). The signature that counts for a call is the one of the nearest class above the receiver."""
    n = draw(st.integers(3, 4))
    types = ["Int", "Str", "Bool", "Float"]
    intro = draw(st.integers(0, n - 2))
    over = draw(st.integers(intro + 1, n - 1)) if draw(st.booleans()) else None
    t_intro = draw(st.sampled_from(types))
    t_over = draw(st.sampled_from([t for t in types if t != t_intro and not sites.subtype(t_intro, t) and not sites.subtype(t, t_intro)]))
    lines = []
    sig = {}
    for k in range(n):
        head = "class C%d(def f%d: Int)" % (k, k) if k == 0 else "class C%d(g%d: Int): C%d(g%d)" % (k, k, k - 1, k)
        lines.append(head)
        if k == intro:
            lines.append("    def meth(fin self, p: %s) -> Int => 1" % t_intro)
        if over is not None and k == over:
            lines.append("    def meth(fin self, p: %s) -> Int => 2" % t_over)
        lines.append("    def own%d(fin self) -> Int => %d" % (k, k))
        cur = t_over if (over is not None and k >= over) else (t_intro if k >= intro else None)
        sig[k] = cur
    return "\n".join(lines) + "\n", sig, n


@st.composite
def _chain_case(draw):
    world, sig, n = _chain_world(draw)
    cands = [k for k in range(n) if sig[k] is not None]
    k = cands[draw(st.integers(0, len(cands) - 1))]
    want = sig[k]
    conform = draw(st.integers(0, 2)) == 0
    lit = {"Int": "3", "Str": '"s"', "Bool": "True", "Float": "2.5"}
    given = want if conform else draw(st.sampled_from([t for t in lit if t != want and not sites.subtype(t, want)]))
    via = draw(st.sampled_from(["instance", "instance", "self"]))
    if via == "instance":
        tail = "def obj: C%d := C%d(1)\ndef res: Int := obj.meth(%s)\nprint(res)\n" % (k, k, lit[given])
    else:
        world = world.replace("    def own%d(fin self) -> Int => %d" % (k, k), "    def own%d(fin self) -> Int => self.meth(%s)" % (k, lit[given]))
        tail = "print(C%d(1).own%d())\n" % (k, k)
    return {"gen": "chain", "src": world + tail, "expect": "ok" if conform else "err", "kind": "chain", "position": via,
            "mutation": None if conform else "bad_arg", "fault": {"receiver": "C%d" % k, "required": want, "given": given}}


class C05:
    id = "C05"
    cases = {"quick": 700, "thorough": 25000}
    rule = ("a fully annotated world (classes A, B <: A, U with typed fields and methods, typed variables) plus one generated "
            "target (function with 0-3 parameters of Int/Float/Str/Bool/A/B/U/Any and primitive defaults, method, constructor, "
            "annotated definition (also one that re-defines a visible name and mentions the old variable in its initialiser), or function/method with declared return type whose value comes from the tail, from one branch "
            "of an if, or from an explicit return) and one use of it planted at one of 12 positions (top level, function body, "
            "method body, for/while body, then/else branch, match arm/default, handle arm, if nested in a function, loop nested in a "
            "method). 5/7 of the cases apply one single-point mutation: too many / too few arguments, an argument of a definitely "
            "non-conforming type, a declared result type the returned type does not conform to, an initialiser or returned value of "
            "a non-conforming type. Oracle: conforming => accepted, mutated => rejected with >=1 non-empty diagnostic; subtyping is "
            "exactly Int <: Float, B <: A, T <: Any. Non-trivial: every case (all are targeted); distinct by SHA-1 of the source; "
            "the kind x position x mutation histogram is reported. (nest) NestGen: blocks nested up to depth 4 (if/else, if, match, for, "
            "while, handle; at top level, in a function, in a method) with annotated definitions of seven types at every level and "
            "uses (argument of a typed sink function, annotated initialiser, method argument) of any visible definition at any deeper "
            "level; 2/3 of the cases replace the variable of one use by a value of a definitely non-conforming type. (chain) a chain "
            "of 3-4 classes, a method introduced at one level and overridden further down with an unrelated parameter type; a call "
            "through an instance or through self of any class of the chain conforms iff its argument conforms to the nearest "
            "definition above the receiver.")
    assumptions = ["pairs the documentation leaves open (Bool where Int is wanted, ...) are never used on either side",
                   "a verdict that differs from the expectation is re-run 10x; an unstable verdict is C12's finding"]
    strict = False

    def strategy(self, tier, switches):
        sites.SWITCHES.update(s.split(".", 1)[1] for s in switches if "." in s)
        return st.one_of(_case(), _case(), _nest_case(), _nest_case(), _chain_case())

    def _tail(self, case):
        g = case.get("gen")
        return case["src"][len(NEST_WORLD):] if g == "nest" else case["src"] if g == "chain" else case["src"][len(sites.WORLD):]

    def summarize(self, case):
        return {"kind": case["kind"], "position": case["position"], "mutation": case["mutation"], "expect": case["expect"],
                "fault": case.get("fault"), "tail": self._tail(case)}

    def check(self, worker, case, stats):
        r = worker.transpile1(case["src"], False)
        oc = outcome(r)
        if oc not in ("ok", "err"):
            stats.inc("crash_left_to_C03")
            return None
        for k, v in list(sites.EXCLUDED.items()):
            stats.inc("excluded_known:" + k, v)
        sites.EXCLUDED.clear()
        stats.inc("kind:" + case["kind"])
        stats.inc("position:" + case["position"])
        stats.inc("mutation:" + str(case["mutation"]))
        stats.inc("cell:%s@%s" % (case["kind"], case["position"]))
        stats.mark_nontrivial({"src": case["src"]}, sample=self.summarize(case), key=(case["kind"], case["mutation"]))
        if oc == case["expect"]:
            if oc == "err" and not (r["err"] and all(isinstance(d, str) and d.strip() for d in r["err"])):
                return {"what": "rejection without diagnostics"}
            return None
        rr = worker.call({"op": "transpile_rep", "files": [[case["src"], None]], "dir": "", "annotate": False, "k": 10})
        if any(outcome(x) != oc for x in rr.get("results", [])):
            stats.inc("nondeterministic_left_to_C12")
            return None
        if case["expect"] == "ok":
            return {"what": "a conforming %s at position %s is rejected" % (case["kind"], case["position"]),
                    "diagnostics": r["err"][:2], "tail": self._tail(case)}
        return {"what": "a %s with mutation %s at position %s is accepted" % (case["kind"], case["mutation"], case["position"]),
                "fault": case.get("fault"), "tail": self._tail(case)}
