"""C05 — declared signatures are enforced: conforming uses pass, others are rejected."""
from hypothesis import strategies as st

from pbt import sites
from pbt.worker import outcome

USE_KINDS = ["call_stmt", "call_init", "call_infer", "call_nested", "method", "ctor", "init", "return", "return_branch",
             "return_explicit"]
MUTATIONS = ["none", "none", "too_many", "too_few", "bad_arg", "bad_result", "bad_value"]


@st.composite
def _signature(draw, name):
    n = draw(st.integers(0, 3))
    params = []
    ndef = draw(st.integers(0, n))
    for i in range(n):
        t = draw(st.sampled_from(sites.TYPES))
        d = None
        if i >= n - ndef and t in sites.PRIMS:
            d = {"Int": "7", "Float": "1.5", "Str": '"d"', "Bool": "False"}[t]
        elif i >= n - ndef:
            # defaults only on a primitive suffix
            for p in params:
                p["default"] = None
        params.append({"name": "p%d" % i, "type": t, "default": d})
    # defaults must be a suffix
    seen = False
    for p in params:
        if p["default"] is not None:
            seen = True
        elif seen:
            for q in params:
                q["default"] = None
            break
    ret = draw(st.sampled_from([None, "Int", "Float", "Str", "Bool", "A", "B"]))
    return {"name": name, "params": params, "ret": ret}


def render_sig(sig, self_kw=None, indent=""):
    ps = ([self_kw] if self_kw else []) + ["%s: %s%s" % (p["name"], p["type"], " := " + p["default"] if p["default"] else "")
                                           for p in sig["params"]]
    head = "%sdef %s(%s)" % (indent, sig["name"], ", ".join(ps))
    if sig["ret"]:
        return "%s -> %s => %s" % (head, sig["ret"], sites.VALUES[sig["ret"]][0])
    return "%s => print(0)" % head


@st.composite
def _args(draw, sig, mutation):
    """-> (list of argument texts, applied mutation or None if the mutation is impossible here)"""
    params = sig["params"]
    required = len([p for p in params if p["default"] is None])
    n = draw(st.integers(required, len(params)))
    args = []
    for p in params[:n]:
        t = draw(st.sampled_from(sites.conforming_types(p["type"])))
        args.append(sites.value(draw, t, p["type"]))
    if mutation == "too_many":
        args = [sites.value(draw, draw(st.sampled_from(sites.conforming_types(p["type"]))), p["type"]) for p in params]
        args.append(sites.value(draw, draw(st.sampled_from(sorted(sites.VALUES)))))
        return args, "too_many"
    if mutation == "too_few":
        if required == 0:
            return args, None
        k = draw(st.integers(0, required - 1))
        return args[:k], "too_few"
    if mutation == "bad_arg":
        cands = [i for i, p in enumerate(params[:n]) if sites.DEFINITE_MISMATCH[p["type"]]]
        if not cands:
            return args, None
        i = cands[draw(st.integers(0, len(cands) - 1))]
        bad_t = draw(st.sampled_from(sites.DEFINITE_MISMATCH[params[i]["type"]]))
        args[i] = sites.value(draw, bad_t)
        return args, "bad_arg"
    return args, None


@st.composite
def _case(draw):
    kind = draw(st.sampled_from(USE_KINDS))
    mutation = draw(st.sampled_from(MUTATIONS))
    position = draw(st.sampled_from(sites.POSITIONS))
    defs, stmts = [], []
    applied = None
    if kind in ("call_stmt", "call_init", "call_infer", "call_nested"):
        sig = draw(_signature("target"))
        if kind != "call_stmt" and sig["ret"] is None:
            sig["ret"] = "Int"
        defs.append(render_sig(sig))
        args, applied = draw(_args(sig, mutation if mutation in ("too_many", "too_few", "bad_arg") else "none"))
        call = "target(%s)" % ", ".join(args)
        if kind == "call_stmt":
            stmts = [call]
        elif kind == "call_init":
            want = sig["ret"]
            if mutation == "bad_result" and sites.DEFINITE_MISMATCH[want]:
                want = draw(st.sampled_from([t for t in sites.DEFINITE_MISMATCH[want]
                                             if not sites.subtype(sig["ret"], t)]))
                applied = "bad_result"
            else:
                want = draw(st.sampled_from([t for t in sites.TYPES if sites.subtype(sig["ret"], t)]))
            stmts = ["def res: %s := %s" % (want, call)]
        elif kind == "call_infer":
            stmts = ["def res := %s" % call]
        else:
            defs.append("def wrap(w: %s) -> Int => 1" % draw(st.sampled_from([t for t in sites.TYPES
                                                                             if sites.subtype(sig["ret"], t)])))
            stmts = ["def res: Int := wrap(%s)" % call]
    elif kind == "method":
        sig = draw(_signature("tm"))
        defs += ["class Tgt(def tv: Int)", render_sig(sig, draw(st.sampled_from(["self", "fin self"])), "    "),
                 "def tobj := Tgt(1)"]
        args, applied = draw(_args(sig, mutation if mutation in ("too_many", "too_few", "bad_arg") else "none"))
        call = "tobj.tm(%s)" % ", ".join(args)
        stmts = [call] if (sig["ret"] is None or draw(st.booleans())) else ["def res: %s := %s" % (sig["ret"], call)]
    elif kind == "ctor":
        n = draw(st.integers(1, 3))
        cargs = [{"name": "c%d" % i, "type": draw(st.sampled_from(sites.PRIMS + ["A", "Any"])), "default": None}
                 for i in range(n)]
        sig = {"name": "Tgt", "params": cargs, "ret": "Tgt"}
        defs.append("class Tgt(%s)" % ", ".join("%s%s: %s" % ("def " if draw(st.booleans()) else "", c["name"], c["type"])
                                                 for c in cargs))
        args, applied = draw(_args(sig, mutation if mutation in ("too_many", "too_few", "bad_arg") else "none"))
        stmts = [draw(st.sampled_from(["def res := Tgt(%s)", "def res: Tgt := Tgt(%s)", "Tgt(%s)"])) % ", ".join(args)]
    elif kind == "init":
        t = draw(st.sampled_from(sites.TYPES))
        if mutation == "bad_value" and sites.DEFINITE_MISMATCH[t]:
            x = draw(st.sampled_from(sites.DEFINITE_MISMATCH[t]))
            applied = "bad_value"
        else:
            x = draw(st.sampled_from(sites.conforming_types(t)))
        stmts = ["def res: %s := %s" % (t, sites.value(draw, x, t))]
        if draw(st.booleans()) and applied is None and t in sites.PRIMS:
            stmts.append("res := %s" % sites.value(draw, draw(st.sampled_from(sites.conforming_types(t))), t))
    else:
        # return sites live in function / method bodies; the position wraps the *call*
        rts = ["Int", "Float", "Str", "Bool", "A", "Any"]
        if "no_any_return" in sites.SWITCHES:
            rts.remove("Any")  # open finding F42
            sites.EXCLUDED["no_any_return"] = sites.EXCLUDED.get("no_any_return", 0) + 1
        r = draw(st.sampled_from(rts))
        good = sites.value(draw, draw(st.sampled_from(sites.conforming_types(r))), r)
        bad = None
        if mutation in ("bad_value", "bad_result") and sites.DEFINITE_MISMATCH[r]:
            bad = sites.value(draw, draw(st.sampled_from(sites.DEFINITE_MISMATCH[r])))
            applied = "bad_return"
        v = bad if bad is not None else good
        in_method = draw(st.booleans())
        indent = "    " if in_method else ""
        head = "%sdef rf(%srp: Int) -> %s =>" % (indent, "fin self, " if in_method else "", r)
        if kind == "return":
            body = ["    " + v]
        elif kind == "return_branch":
            other = sites.value(draw, draw(st.sampled_from(sites.conforming_types(r))), r)
            first = draw(st.booleans())
            body = ["    if rp > 0 then", "        " + (v if first else other), "    else", "        " + (other if first else v)]
        else:
            body = ["    if rp > 0 then return " + v, "    " + good]
        lines = [head] + [indent + b for b in body]
        if in_method:
            defs += ["class RHost(def rv: Int)"] + lines + ["def robj := RHost(1)"]
            stmts = ["robj.rf(1)"]
        else:
            defs += lines
            stmts = ["rf(1)"]
    body = sites.place(position, stmts)
    return {"src": sites.program(defs, body), "kind": kind, "position": position, "mutation": applied,
            "expect": "err" if applied else "ok"}


class C05:
    id = "C05"
    cases = {"quick": 700, "thorough": 25000}
    rule = ("a fully annotated world (classes A, B <: A, U with typed fields and methods, typed variables) plus one generated "
            "target (function with 0-3 parameters of Int/Float/Str/Bool/A/B/U/Any and primitive defaults, method, constructor, "
            "annotated definition, or function/method with declared return type whose value comes from the tail, from one branch "
            "of an if, or from an explicit return) and one use of it planted at one of 12 positions (top level, function body, "
            "method body, for/while body, then/else branch, match arm/default, handle arm, if nested in a function, loop nested in a "
            "method). 5/7 of the cases apply one single-point mutation: too many / too few arguments, an argument of a definitely "
            "non-conforming type, a declared result type the returned type does not conform to, an initialiser or returned value of "
            "a non-conforming type. Oracle: conforming => accepted, mutated => rejected with >=1 non-empty diagnostic; subtyping is "
            "exactly Int <: Float, B <: A, T <: Any. Non-trivial: every case (all are targeted); distinct by SHA-1 of the source; "
            "the kind x position x mutation histogram is reported.")
    assumptions = ["pairs the documentation leaves open (Bool where Int is wanted, ...) are never used on either side",
                   "a verdict that differs from the expectation is re-run 10x; an unstable verdict is C12's finding"]
    strict = False

    def strategy(self, tier, switches):
        sites.SWITCHES.update(s.split(".", 1)[1] for s in switches if "." in s)
        return _case()

    def summarize(self, case):
        return {"kind": case["kind"], "position": case["position"], "mutation": case["mutation"], "expect": case["expect"],
                "tail": case["src"][len(sites.WORLD):]}

    def check(self, worker, case, stats):
        r = worker.transpile1(case["src"], False)
        oc = outcome(r)
        if oc not in ("ok", "err"):
            stats.inc("crash_left_to_C03")
            return None
        for k, v in list(sites.EXCLUDED.items()):
            stats.inc("excluded_known:" + k, v)
        sites.EXCLUDED.clear()
        stats.inc("kind:" + case["kind"])
        stats.inc("position:" + case["position"])
        stats.inc("mutation:" + str(case["mutation"]))
        stats.inc("cell:%s@%s" % (case["kind"], case["position"]))
        stats.mark_nontrivial({"src": case["src"]}, sample=self.summarize(case), key=(case["kind"], case["mutation"]))
        if oc == case["expect"]:
            if oc == "err" and not (r["err"] and all(isinstance(d, str) and d.strip() for d in r["err"])):
                return {"what": "rejection without diagnostics"}
            return None
        rr = worker.call({"op": "transpile_rep", "files": [[case["src"], None]], "dir": "", "annotate": False, "k": 10})
        if any(outcome(x) != oc for x in rr.get("results", [])):
            stats.inc("nondeterministic_left_to_C12")
            return None
        if case["expect"] == "ok":
            return {"what": "a conforming %s at position %s is rejected" % (case["kind"], case["position"]),
                    "diagnostics": r["err"][:2], "tail": case["src"][len(sites.WORLD):]}
        return {"what": "a %s with mutation %s at position %s is accepted" % (case["kind"], case["mutation"], case["position"]),
                "tail": case["src"][len(sites.WORLD):]}
