"""Dev aid: python3-vt -m pbt.probe FILE — FILE has a prelude, a line '---', then one candidate statement per line
(use \\n for newlines). Each candidate is tried alone after the prelude, both annotate settings; prints verdict + py + run output."""
import sys, io, contextlib
from pbt.worker import Worker
def main():
    text = open(sys.argv[1]).read()
    pre, _, rest = text.partition("\n---\n")
    w = Worker()
    for line in rest.split("\n"):
        if not line.strip(): continue
        cand = line.replace("\\n", "\n")
        src = pre + "\n" + cand + "\n"
        outs = []
        for ann in (False, True):
            r = w.transpile1(src, ann)
            if "ok" in r:
                py = r["ok"][0]
                tail = py.strip().split("\n")
                buf = io.StringIO(); exc = ""
                try:
                    with contextlib.redirect_stdout(buf):
                        exec(compile(py, "<o>", "exec"), {"__name__": "__main__"})
                except BaseException as e:
                    exc = " EXC=%s:%s" % (type(e).__name__, e)
                npre = len(w.transpile1(pre + "\n", ann).get("ok", [""])[0].strip().split("\n"))
                outs.append("OK  py=%r out=%r%s" % ("\n".join(tail[npre:]) if "-v" not in sys.argv else py, buf.getvalue()[-200:], exc))
            elif "err" in r:
                first = r["err"][0].split("\n")[0]
                outs.append("ERR %s" % first)
            else:
                outs.append(str(r)[:200])
        if outs[0] == outs[1]:
            print("%-45s | %s" % (line, outs[0]))
        else:
            print("%-45s | F: %s\n%-45s | T: %s" % (line, outs[0], "", outs[1]))
    w.close()
main()
