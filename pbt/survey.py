"""Development aid: run N generated cases (plus the fixed catalogue) of a property WITHOUT stopping at
the first failure and print a histogram of failure signatures.
usage: python3-vt -m pbt.survey <ID> <N> [seed] [--nofixed]"""
import collections, json, sys, os, re
import multiprocessing as mp
from hypothesis import HealthCheck, Phase, given, seed, settings
from pbt.run import REGISTRY
from pbt.engine import Stats, open_switches
from pbt.worker import Worker

def shard(args):
    pid, n, sd, sh, nsh, nofixed = args
    mod, cls = REGISTRY[pid]
    prop = getattr(__import__(mod, fromlist=[cls]), cls)()
    sw = open_switches(pid)
    w = Worker(cpu_limit=getattr(prop, "cpu_limit", 120.0)); prop.worker = w
    st = Stats()
    fails = []
    if not nofixed and hasattr(prop, "fixed_cases"):
        for i, c in enumerate(prop.fixed_cases("quick", sw)):
            if i % nsh != sh: continue
            st.evaluations += 1
            f = prop.check(w, c, st)
            if f: fails.append((f, c))
    @seed(sd * 4096 + sh)
    @settings(max_examples=n, database=None, deadline=None, suppress_health_check=list(HealthCheck),
              phases=[Phase.generate])
    @given(prop.strategy("quick", sw))
    def run(case):
        st.evaluations += 1
        f = prop.check(w, case, st)
        if f: fails.append((f, case))
    if n > 0:
        run()
    w.close()
    return fails, st.export()

def main():
    import subprocess
    # never survey with a stale worker
    subprocess.run(["cargo", "build", "--profile", "verif", "--offline"], cwd=os.path.join(os.path.dirname(__file__), "..", "harness"),
                   stdout=subprocess.DEVNULL, stderr=subprocess.DEVNULL)
    pid, n = sys.argv[1], int(sys.argv[2])
    sd = int(sys.argv[3]) if len(sys.argv) > 3 and sys.argv[3].isdigit() else 0
    nofixed = "--nofixed" in sys.argv
    nsh = int(os.environ.get("VERIF_SHARDS", "16"))
    with mp.get_context("fork").Pool(nsh) as pool:
        res = pool.map(shard, [(pid, n, sd, s, nsh, nofixed) for s in range(nsh)], chunksize=1)
    hist = collections.Counter(); ex = {}
    classes = collections.Counter(); ev = 0; nt = set()
    for fails, st in res:
        ev += st["evaluations"]; nt.update(st["nontrivial"])
        for k, v in st["classes"].items(): classes[k] += v
        for f, c in fails:
            key = re.sub(r"\d+", "N", re.sub(r"'[^']*'|\"[^\"]*\"|\([^)]*\)", "Q", str(f.get("what"))))[:160] if not f.get("inconclusive") else "INCONCLUSIVE " + str(f.get("why"))
            hist[key] += 1
            if key not in ex or len(json.dumps(c)) < len(json.dumps(ex[key][1])):
                ex[key] = (f, c)
    print("evaluations", ev, "nontrivial", len(nt))
    for k, v in sorted(classes.items()): print("   %-40s %d" % (k, v))
    print("==== failures: %d kinds" % len(hist))
    for k, v in hist.most_common():
        print("%5d  %s" % (v, k))
        f, c = ex[k]
        print("        smallest case:", json.dumps(c)[:700])
        print("        failure:", json.dumps(f, default=str)[:500])
main()
