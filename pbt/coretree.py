"""Core trees (mamba::generate::ast::node::Core) as nested lists, the table that maps them to the Python
`ast` shape their printed text must parse back to (DESIGN.md appendix A), and the normaliser for CPython's ast.

The table is the oracle of C10. It never looks at what mamba prints.
"""
import ast

BIN_ARITH = {
    "Add": "Add", "Sub": "Sub", "Mul": "Mult", "Div": "Div", "FDiv": "FloorDiv", "Mod": "Mod", "Pow": "Pow",
    "BAnd": "BitAnd", "BOr": "BitOr", "BXOr": "BitXor", "BLShift": "LShift", "BRShift": "RShift",
}
BIN_CMP = {
    "Ge": "Gt", "Geq": "GtE", "Le": "Lt", "Leq": "LtE", "Eq": "Eq", "Neq": "NotEq", "Is": "Is", "IsN": "IsNot",
    "In": "In",
}
BIN_BOOL = {"And": "And", "Or": "Or"}
UNARY = {"Not": "Not", "AddU": "UAdd", "SubU": "USub", "BOneCmpl": "Invert"}
BINARY_TAGS = list(BIN_ARITH) + list(BIN_CMP) + list(BIN_BOOL)


def boolop(op, values):
    flat = []
    for v in values:
        if v[0] == "BoolOp" and v[1] == op:
            flat.extend(v[2])
        else:
            flat.append(v)
    return ("BoolOp", op, tuple(flat))


def _attach(obj, prop):
    """PropertyCall is right-nested in mamba; Python's attribute/call chain is left-nested."""
    tag = prop[0]
    if tag == "Id":
        return ("Attribute", obj, prop[1])
    if tag == "FunctionCall":
        return ("Call", _attach(obj, prop[1]), tuple(expected(a) for a in prop[2]))
    if tag == "Index":
        return ("Subscript", _attach(obj, prop[1]), expected(prop[2]))
    if tag == "PropertyCall":
        return _attach(_attach(obj, prop[1]), prop[2])
    raise ValueError("unsupported property shape %r" % (tag,))


def expected(core):
    """Normalised Python ast that the printed text of `core` must parse to."""
    tag = core[0]
    if tag == "Id":
        return ("Name", core[1])
    if tag == "Int":
        return ("Const", repr(int(core[1])))
    if tag == "Float":
        return ("Const", repr(float(core[1])))
    if tag == "Str":
        return ("Const", repr(core[1]))
    if tag == "Bool":
        return ("Const", repr(bool(core[1])))
    if tag == "None":
        return ("Const", "None")
    if tag == "ENum":
        return ("BinOp", "Mult", ("Const", repr(int(core[1]))),
                ("BinOp", "Pow", ("Const", "10"), ("Const", repr(int(core[2])))))
    if tag in BIN_ARITH:
        return ("BinOp", BIN_ARITH[tag], expected(core[1]), expected(core[2]))
    if tag in BIN_CMP:
        return ("Compare", expected(core[1]), (BIN_CMP[tag],), (expected(core[2]),))
    if tag in BIN_BOOL:
        return boolop(BIN_BOOL[tag], [expected(core[1]), expected(core[2])])
    if tag in UNARY:
        return ("UnaryOp", UNARY[tag], expected(core[1]))
    if tag == "Sqrt":
        return ("Call", ("Attribute", ("Name", "math"), "sqrt"), (expected(core[1]),))
    if tag == "IsA":
        return ("Call", ("Name", "isinstance"), (expected(core[1]), expected(core[2])))
    if tag == "Ternary":
        return ("IfExp", expected(core[1]), expected(core[2]), expected(core[3]))
    if tag == "AnonFun":
        return ("Lambda", tuple(a[1] for a in core[1]), expected(core[2]))
    if tag == "PropertyCall":
        return _attach(expected(core[1]), core[2])
    if tag == "FunctionCall":
        return ("Call", expected(core[1]), tuple(expected(a) for a in core[2]))
    if tag == "Index":
        return ("Subscript", expected(core[1]), expected(core[2]))
    if tag in ("Tuple", "List", "Set"):
        return (tag, tuple(expected(e) for e in core[1]))
    if tag == "Dictionary":
        return ("Dict", tuple((expected(k), expected(v)) for k, v in core[1]))
    raise ValueError("no table entry for %r" % (tag,))


def norm(node):
    """Normalise a CPython ast expression node into the same vocabulary."""
    if isinstance(node, ast.Name):
        return ("Name", node.id)
    if isinstance(node, ast.Constant):
        return ("Const", repr(node.value))
    if isinstance(node, ast.BinOp):
        return ("BinOp", type(node.op).__name__, norm(node.left), norm(node.right))
    if isinstance(node, ast.UnaryOp):
        return ("UnaryOp", type(node.op).__name__, norm(node.operand))
    if isinstance(node, ast.BoolOp):
        return boolop(type(node.op).__name__, [norm(v) for v in node.values])
    if isinstance(node, ast.Compare):
        return ("Compare", norm(node.left), tuple(type(o).__name__ for o in node.ops),
                tuple(norm(c) for c in node.comparators))
    if isinstance(node, ast.IfExp):
        return ("IfExp", norm(node.test), norm(node.body), norm(node.orelse))
    if isinstance(node, ast.Lambda):
        return ("Lambda", tuple(a.arg for a in node.args.args), norm(node.body))
    if isinstance(node, ast.Call):
        if node.keywords:
            return ("CallKw", ast.dump(node))
        return ("Call", norm(node.func), tuple(norm(a) for a in node.args))
    if isinstance(node, ast.Attribute):
        return ("Attribute", norm(node.value), node.attr)
    if isinstance(node, ast.Subscript):
        return ("Subscript", norm(node.value), norm(node.slice))
    if isinstance(node, ast.Tuple):
        return ("Tuple", tuple(norm(e) for e in node.elts))
    if isinstance(node, ast.List):
        return ("List", tuple(norm(e) for e in node.elts))
    if isinstance(node, ast.Set):
        return ("Set", tuple(norm(e) for e in node.elts))
    if isinstance(node, ast.Dict):
        return ("Dict", tuple((norm(k), norm(v)) for k, v in zip(node.keys, node.values)))
    if isinstance(node, ast.JoinedStr):
        return ("FStr", ast.dump(node))
    return ("Other", ast.dump(node))


def parse_expr(text):
    """Parse printed text as one Python expression -> normalised tree, or ('SyntaxError', msg)."""
    try:
        tree = ast.parse(text.strip(), mode="eval")
    except SyntaxError as e:
        return ("SyntaxError", str(e))
    return norm(tree.body)


# ---- enumeration --------------------------------------------------------------------------------
class Namer:
    """Fresh leaf names in traversal order, so that swapped or lost operands are visible."""

    def __init__(self):
        self.i = 0

    def atom(self):
        self.i += 1
        kinds = self.i % 5
        if kinds == 0:
            return ["Int", str(self.i)]
        if kinds == 3:
            return ["Str", "s%d" % self.i]
        if kinds == 4:
            return ["Float", "%d.5" % self.i]
        return ["Id", "v%d" % self.i]

    def ident(self):
        self.i += 1
        return ["Id", "v%d" % self.i]


# constructor templates: (tag, number of expression slots, builder(children list, namer))
def _ctor_table():
    t = []
    for tag in BINARY_TAGS:
        t.append((tag, 2, lambda ch, nm, tag=tag: [tag, ch[0], ch[1]]))
    for tag in list(UNARY) + ["Sqrt"]:
        t.append((tag, 1, lambda ch, nm, tag=tag: [tag, ch[0]]))
    t.append(("IsA", 2, lambda ch, nm: ["IsA", ch[0], ch[1]]))
    t.append(("Ternary", 3, lambda ch, nm: ["Ternary", ch[0], ch[1], ch[2]]))
    t.append(("AnonFun", 1, lambda ch, nm: ["AnonFun", [nm.ident()], ch[0]]))
    t.append(("AnonFun0", 1, lambda ch, nm: ["AnonFun", [], ch[0]]))
    t.append(("PropertyCall", 1, lambda ch, nm: ["PropertyCall", ch[0], nm.ident()]))
    t.append(("MethodCall", 2, lambda ch, nm: ["PropertyCall", ch[0], ["FunctionCall", nm.ident(), [ch[1]]]]))
    t.append(("FunctionCall", 2, lambda ch, nm: ["FunctionCall", ch[0], [ch[1]]]))
    t.append(("FunctionCall2", 2, lambda ch, nm: ["FunctionCall", nm.ident(), [ch[0], ch[1]]]))
    t.append(("Index", 2, lambda ch, nm: ["Index", ch[0], ch[1]]))
    t.append(("Tuple", 2, lambda ch, nm: ["Tuple", [ch[0], ch[1]]]))
    t.append(("List", 1, lambda ch, nm: ["List", [ch[0]]]))
    t.append(("Set", 1, lambda ch, nm: ["Set", [ch[0]]]))
    t.append(("Dictionary", 2, lambda ch, nm: ["Dictionary", [[ch[0], ch[1]]]]))
    # desugarings as the convert stage builds them
    t.append(("RangeIncl", 3, lambda ch, nm: ["FunctionCall", ["Id", "range"], [ch[0], ["Add", ch[1], ["Int", "1"]], ch[2]]]))
    t.append(("SliceExcl", 3, lambda ch, nm: ["FunctionCall", ["Id", "slice"], [ch[0], ["Sub", ch[1], ["Int", "1"]], ch[2]]]))
    t.append(("IsNA", 2, lambda ch, nm: ["Not", ["IsA", ch[0], ch[1]]]))
    t.append(("Question", 2, lambda ch, nm: ["Or", ch[0], ch[1]]))
    t.append(("ENumL", 1, lambda ch, nm: ["Mul", ["ENum", "2", "3"], ch[0]]))
    t.append(("ENumR", 1, lambda ch, nm: ["Pow", ch[0], ["ENum", "2", "3"]]))
    t.append(("ENumU", 0, lambda ch, nm: ["SubU", ["ENum", "2", "3"]]))
    t.append(("ENumP", 0, lambda ch, nm: ["PropertyCall", ["ENum", "2", "3"], nm.ident()]))
    return t


CTORS = _ctor_table()


def build(spec, nm):
    """spec: None (atom) or (ctor index, [child specs]) -> Core tree."""
    if spec is None:
        return nm.atom()
    idx, kids = spec
    tag, n, mk = CTORS[idx]
    ch = [build(k, nm) for k in kids]
    return mk(ch, nm)


def specs_depth2():
    for i, (tag, n, _) in enumerate(CTORS):
        yield (i, [None] * n)


def enumerate_specs():
    """All (parent, slot, child), all spines (parent, slot, child, slot, grandchild) and all binary parents
    with two compound children. Specs, not trees (trees are built per shard)."""
    leafs = list(specs_depth2())
    # depth 1-2
    for s in leafs:
        yield s
    for pi, (ptag, pn, _) in enumerate(CTORS):
        for slot in range(pn):
            for c in leafs:
                kids = [None] * pn
                kids[slot] = c
                yield (pi, kids)
    # depth 3 spines
    for pi, (ptag, pn, _) in enumerate(CTORS):
        for slot in range(pn):
            for ci, (ctag, cn, _) in enumerate(CTORS):
                for cslot in range(cn):
                    for g in leafs:
                        ckids = [None] * cn
                        ckids[cslot] = g
                        kids = [None] * pn
                        kids[slot] = (ci, ckids)
                        yield (pi, kids)
    # two compound children
    for pi, (ptag, pn, _) in enumerate(CTORS):
        if pn != 2:
            continue
        for a in leafs:
            for b in leafs:
                yield (pi, [a, b])


def spec_depth(spec):
    if spec is None:
        return 0
    return 1 + max([spec_depth(k) for k in spec[1]] or [0])
