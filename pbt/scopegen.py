"""ScopeGen: shadow-heavy, Int-only programs together with a model of Mamba's documented scoping and mutability rules.

Shared by C07 (immutability) and C09 (definite assignment). Everything random is a Hypothesis draw. A program is generated
statement by statement; the generator carries the environment the *language* prescribes (block scoping: a definition is
visible from its statement to the end of its block and in nested blocks; a block's definitions vanish when it closes and
the outer definition of the same name becomes visible again; loop variables, match-arm bindings and handle-arm variables
live in their body only; parameters live in their function; a function body sees the top-level definitions made before
the function). Every statement it emits is legal under that model, so the program must be accepted; optionally exactly one
illegal statement is planted at a random slot:

  fault="assign"  an assignment (:=, +=, tuple assignment, field assignment through self / a receiver) whose target is,
                  at that point, a `fin` definition, a field reached through a `fin` self / receiver, or not defined
  fault="read"    a read of a name that is not defined at that point on every path (never defined, defined later, defined
                  in a block that has been closed: other branch, earlier arm, loop body, function, arm binding, handle
                  variable, loop variable)

Names come from small pools so that re-definitions, loop variables, parameters and arm bindings collide with earlier
definitions all the time (the visible definition is what counts, not the spelling).

What is NOT generated because the documents leave it open or because an open finding lives there (each by construction):
  * a name defined in two or more branches of one if / match is never read, assigned or used as a fault target after that
    construct until it is defined again ("gray": Mamba scopes by block, Python by function);
  * assignment to a loop variable, a match binding or a handle variable (they cannot be declared fin);
  * with exec_safe (C09 executes what is accepted): binders inside a function body use the function's own name pool, so a
    local never hides a global that the same function read earlier (Python makes the name local to the whole function:
    open finding F46), and functions never assign top-level variables;
  * nested handles use one variable name per nesting depth (Python unbinds an `except .. as` name when the clause ends).
"""
from hypothesis import strategies as st

HEADER = """class HErr(msg: Str): Exception(msg)
class HErr2(msg: Str): Exception(msg)
def hr(k: Int) -> Int raise [HErr, HErr2] =>
    if k > 1 then raise HErr2("b")
    if k > 0 then raise HErr("a")
    k
def gi(k: Int) => print(k)
def ge(k: HErr) => print("e")
def ge2(k: HErr2) => print("f")
def vi: Int := 3
"""

GLOBAL_POOL = ["xa", "xb", "xc", "xd"]
FUN_POOL = ["fa", "fb", "fc"]
PARAMS = ["pa", "pb"]


class Var:
    __slots__ = ("mut", "ty", "assignable")

    def __init__(self, mut, ty="I", assignable=True):
        self.mut = mut              # not fin
        self.ty = ty                # "I" Int, "E1"/"E2" exception object, "K" object of class KN
        self.assignable = assignable  # False: loop variable / arm binding / handle variable (asserted in neither direction)


class SG:
    def __init__(self, draw, fault=None, exec_safe=False, budget=9):
        self.draw = draw
        self.fault = fault            # None | "assign" | "read"
        self.exec_safe = exec_safe
        self.scopes = [{}]            # innermost last; name -> Var
        self.gray = [set()]           # per scope: names that are gray there
        self.fun_base = 0             # index of the first scope of the current function (0 at top level)
        self.in_fun = False
        self.self_mut = None          # None outside a method, else True / False
        self.lines = []
        self.budget = budget
        self.slot = 0
        self.fault_slot = draw(st.integers(0, budget + 4)) if fault else -1
        self.fault_done = None        # description of the planted fault
        self.n_fresh = 0
        self.n_fun = 0
        self.n_cls = 0
        self.handle_depth = 0
        self.features = set()
        self.ever_defined = set()     # every name a definition / binder introduced anywhere so far
        self.receivers = {}           # receiver variable name -> class name (top level only)

    # -- draws ------------------------------------------------------------------------------------
    def i(self, lo, hi):
        return self.draw(st.integers(lo, hi))

    def chance(self, pct):
        return self.i(0, 99) < pct

    def pick(self, seq):
        seq = list(seq)
        return seq[self.i(0, len(seq) - 1)]

    # -- environment -------------------------------------------------------------------------------
    def lookup(self, name):
        """Var visible at this point, "gray", or None."""
        for k in range(len(self.scopes) - 1, -1, -1):
            if self.in_fun and k < self.fun_base and k != 0:
                continue  # scopes of the enclosing top-level blocks other than the global scope do not exist: functions
                # are only defined at top level, so k is 0 or >= fun_base anyway
            if name in self.gray[k]:
                return "gray"
            if name in self.scopes[k]:
                return self.scopes[k][name]
        return None

    def visible(self, pred):
        out = []
        seen = set()
        for k in range(len(self.scopes) - 1, -1, -1):
            for n in list(self.gray[k]):
                seen.add(n)
            for n, v in self.scopes[k].items():
                if n not in seen:
                    seen.add(n)
                    if pred(n, v):
                        out.append(n)
        return sorted(out)

    def ints(self):
        return self.visible(lambda n, v: v.ty == "I")

    def define(self, name, var):
        self.scopes[-1][name] = var
        self.gray[-1].discard(name)
        self.ever_defined.add(name)

    def push(self):
        self.scopes.append({})
        self.gray.append(set())

    def pop(self):
        self.gray.pop()
        return self.scopes.pop()

    def binder_pool(self):
        if self.in_fun and self.exec_safe:
            return FUN_POOL
        if self.in_fun:
            return FUN_POOL + GLOBAL_POOL[:2]
        return GLOBAL_POOL

    def may_assign(self, name):
        """exec_safe: inside a function only the function's own names are assigned (no `global` is emitted: F46)."""
        if not (self.in_fun and self.exec_safe):
            return True
        for k in range(len(self.scopes) - 1, self.fun_base - 1, -1):
            if name in self.scopes[k]:
                return True
        return False

    # -- expressions --------------------------------------------------------------------------------
    def int_expr(self, depth=1):
        names = self.ints()
        if names and self.chance(70):
            n = self.pick(names)
            if depth > 0 and self.chance(35):
                return "%s %s %s" % (n, self.pick(["+", "-", "*"]), self.int_atom())
            return n
        return self.int_atom()

    def int_atom(self):
        names = self.ints()
        if names and self.chance(40):
            return self.pick(names)
        return str(self.i(0, 9))

    def cond(self):
        names = self.ints()
        if names and self.chance(70):
            return "%s %s %d" % (self.pick(names), self.pick([">", "<", ">=", "<="]), self.i(0, 5))
        return "vi %s %d" % (self.pick([">", "<"]), self.i(0, 5))

    # -- emission -------------------------------------------------------------------------------------
    def emit(self, ind, text):
        self.lines.append("    " * ind + text)

    def block(self, ind, n_min=1, n_max=3):
        """Statements of one block (the scope is pushed / popped by the caller). Returns the names defined directly in it."""
        for _ in range(self.i(n_min, n_max)):
            self.statement(ind)
        return set(self.scopes[-1].keys())

    def statement(self, ind):
        self.slot += 1
        if self.fault and self.fault_done is None and self.slot >= self.fault_slot:
            if self.plant(ind):
                return
        self.budget -= 1
        depth = len(self.scopes) - 1
        simple = [(5, self.s_def), (3, self.s_read), (3, self.s_assign), (2, self.s_tuple_def), (1, self.s_tuple_assign),
                  (1, self.s_bare_def), (2, self.s_builder), (1, self.s_nested_tuple_assign)]
        compound = [(3, self.s_if), (2, self.s_match), (2, self.s_for), (1, self.s_while), (2, self.s_handle)]
        if self.self_mut is not None:
            simple.append((3, self.s_self_field))
        if self.receivers and not self.in_fun:
            simple.append((2, self.s_receiver_field))
        opts = simple + (compound if (self.budget > 0 and depth < 3 + (1 if self.in_fun else 0)) else [])
        total = sum(w for w, _ in opts)
        r = self.i(0, total - 1)
        for w, f in opts:
            if r < w:
                if f(ind) is False:
                    self.s_def(ind)
                return
            r -= w

    # simple statements
    def s_def(self, ind):
        name = self.pick(self.binder_pool())
        fin = self.chance(40)
        if self.chance(35):
            ann, e = "", self.int_expr(0)
        else:
            ann, e = ": Int", self.int_expr()
        self.emit(ind, "def %s%s%s := %s" % ("fin " if fin else "", name, ann, e))
        self.define(name, Var(not fin))
        self.features.add("def_fin" if fin else "def_mut")
        if any(name in s for s in self.scopes[:-1]):
            self.features.add("shadow_outer")

    def s_bare_def(self, ind):
        """a definition without initialiser (with or without type): assignable iff it is not fin; it is given a value before any
        read (a read of a variable that holds nothing is not what the model is about)"""
        name = self.pick(self.binder_pool())
        fin = self.chance(40)
        typed = self.chance(50)
        if self.chance(25):
            other = self.pick([n for n in self.binder_pool() if n != name])
            self.emit(ind, "def %s(%s, %s)" % ("fin " if fin else "", name, other))
            self.define(name, Var(not fin, "X"))
            self.define(other, Var(not fin, "X"))
            self.features.add("bare_tuple_def" + ("_fin" if fin else ""))
            return
        self.emit(ind, "def %s%s%s" % ("fin " if fin else "", name, ": Int" if typed else ""))
        self.define(name, Var(not fin, "X"))
        self.features.add("bare_def" + ("_fin" if fin else "") + ("_typed" if typed else ""))
        if not fin and self.may_assign(name) and self.chance(70):
            self.emit(ind, "%s := %s" % (name, self.int_atom()))
            if typed:
                self.define(name, Var(True))   # an Int variable with a value from here on

    def s_builder(self, ind):
        """a list / set builder, as initialiser or as a statement of its own: its variable lives inside the builder only"""
        v = self.pick(self.binder_pool())
        src = "[%s, %s]" % (self.int_atom(), self.int_atom())
        cond = (", %s > %d" % (v, self.i(0, 3))) if self.chance(40) else ""
        kind = self.pick(["def_list", "def_set", "statement", "statement"])
        if kind == "statement":
            self.emit(ind, "[%s + 1 | %s in %s%s]" % (v, v, src, cond))
        else:
            self.n_fresh += 1
            b = "bl%d" % self.n_fresh
            if kind == "def_list":
                self.emit(ind, "def %s: List[Int] := [%s * 2 | %s in %s%s]" % (b, v, v, src, cond))
            else:
                self.emit(ind, "def %s: Set[Int] := {%s | %s in %s%s}" % (b, v, v, src, cond))
            self.define(b, Var(True, "L"))
        self.ever_defined.add(v)
        self.features.add("builder_" + kind)

    def s_tuple_def(self, ind):
        pool = self.binder_pool()
        a = self.pick(pool)
        b = self.pick([n for n in pool if n != a])
        fin = self.chance(40)
        ann = ": (Int, Int)" if self.chance(40) else ""
        self.emit(ind, "def %s(%s, %s)%s := (%s, %s)" % ("fin " if fin else "", a, b, ann, self.int_expr(0), self.int_expr(0)))
        self.define(a, Var(not fin))
        self.define(b, Var(not fin))
        self.features.add("tuple_def" + ("_annotated" if ann else "") + ("_fin" if fin else ""))

    def s_read(self, ind):
        names = self.ints()
        if not names:
            return False
        n = self.pick(names)
        forms = ["gi(%s)", "print(%s)", "gi(%s + 1)", "if %s > 0 then print(1)"]
        if isinstance(self.lookup("cb"), Var):
            forms += ["gi(cb(%s))", "gi(cb(%s + 1))"]
        form = self.pick(forms)
        if self.chance(10):
            self.n_fresh += 1
            form = "def zq%d := %%s isa Int" % self.n_fresh
        self.emit(ind, form % n)
        self.features.add("read")

    def assign_targets(self):
        return [n for n in self.visible(lambda n, v: v.ty == "I" and v.mut and v.assignable) if self.may_assign(n)]

    def s_assign(self, ind):
        t = self.assign_targets()
        if not t:
            return False
        n = self.pick(t)
        op = self.pick([":=", ":=", "+=", "-=", "*="])
        self.emit(ind, "%s %s %s" % (n, op, self.int_expr(0) if op == ":=" else self.int_atom()))
        self.features.add("assign")

    def s_tuple_assign(self, ind):
        t = self.assign_targets()
        if len(t) < 2:
            return False
        a = self.pick(t)
        b = self.pick([n for n in t if n != a])
        self.emit(ind, "(%s, %s) := (%s, %s)" % (a, b, self.int_atom(), self.int_atom()))
        self.features.add("tuple_assign")

    def s_nested_tuple_assign(self, ind):
        t = self.assign_targets()
        if len(t) < 3:
            return False
        order = list(self.draw(st.permutations(t)))[:3]
        a, b, c = order
        shape = self.pick(["(%s, (%s, %s)) := (1, (2, 3))", "((%s, %s), %s) := ((1, 2), 3)"])
        self.emit(ind, shape % (a, b, c))
        self.features.add("nested_tuple_assign")

    def s_self_field(self, ind):
        if self.self_mut and self.chance(60):
            self.emit(ind, "self.g %s %s" % (self.pick([":=", "+="]), self.int_atom()))
            self.features.add("self_field_assign")
        else:
            self.emit(ind, "gi(self.%s)" % self.pick(["f", "g"]))

    def s_receiver_field(self, ind):
        cands = [r for r in self.receivers if isinstance(self.lookup(r), Var) and self.lookup(r).ty == "K"]
        if not cands:
            return False
        r = self.pick(cands)
        v = self.lookup(r)
        if v.mut and self.chance(60):
            self.emit(ind, "%s.%s %s %s" % (r, self.pick(["f", "g"]), self.pick([":=", "+="]), self.int_atom()))
            self.features.add("receiver_field_assign")
        else:
            self.emit(ind, "gi(%s.g)" % r)

    # compound statements
    def gray_after(self, branches):
        """names defined directly in two or more of the closed branches become gray in the enclosing scope"""
        seen, twice = set(), set()
        for names in branches:
            for n in names:
                (twice if n in seen else seen).add(n)
        for n in twice:
            self.gray[-1].add(n)
        if twice:
            self.features.add("gray_marked")

    def s_if(self, ind):
        self.emit(ind, "if %s then" % self.cond())
        self.push()
        a = self.block(ind + 1)
        self.pop()
        branches = [a]
        if self.chance(60):
            self.emit(ind, "else")
            self.push()
            branches.append(self.block(ind + 1))
            self.pop()
            self.features.add("if_else")
        else:
            self.features.add("if_only")
        self.gray_after(branches)

    def s_match(self, ind):
        names = self.ints()
        subject = self.pick(names) if names else "vi"
        self.emit(ind, "match %s" % subject)
        branches = []
        lits = sorted(set(self.i(0, 5) for _ in range(self.i(1, 2))))
        for l in lits:
            self.emit(ind + 1, "%d =>" % l)
            self.push()
            branches.append(self.block(ind + 2, 1, 2))
            self.pop()
        last = self.pick(["bind", "bind", "wild"])
        if last == "bind":
            b = self.pick(self.binder_pool())
            self.emit(ind + 1, "%s =>" % b)
            self.push()
            self.define(b, Var(True, "B", assignable=False))
            self.emit(ind + 2, "gi(%s)" % b)
            names_in = self.block(ind + 2, 1, 2)
            self.pop()
            branches.append(names_in)
            self.features.add("match_binding")
            if self.chance(30):
                # an arm after a catch-all binding: never runs (the generator drops it), but it is checked, and the binding of
                # the arm before it is not visible in it
                self.emit(ind + 1, "_ =>")
                self.push()
                branches.append(self.block(ind + 2, 1, 2))
                self.pop()
                self.features.add("arm_after_binding")
        else:
            self.emit(ind + 1, "_ =>")
            self.push()
            branches.append(self.block(ind + 2, 1, 2))
            self.pop()
        self.gray_after(branches)
        self.features.add("match")

    def s_for(self, ind):
        v = self.pick(self.binder_pool())
        kind = self.pick(["range", "range_incl", "list"])
        if kind == "list":
            it = "[%s, %s]" % (self.int_atom(), self.int_atom())
        else:
            it = "%d %s %d" % (self.i(0, 1), ".." if kind == "range" else "..=", self.i(1, 2))
        self.emit(ind, "for %s in %s do" % (v, it))
        self.push()
        self.define(v, Var(True, "I", assignable=False))
        self.block(ind + 1)
        self.pop()
        self.features.add("for")
        if any(v in s for s in self.scopes):
            self.features.add("for_var_shadows")

    def s_while(self, ind):
        self.n_fresh += 1
        w = "wk%d" % self.n_fresh
        self.emit(ind, "def %s: Int := %d" % (w, self.i(1, 2)))
        self.define(w, Var(True, "W"))
        self.emit(ind, "while %s > 0 do" % w)
        self.push()
        self.block(ind + 1, 1, 2)
        self.pop()
        self.emit(ind + 1, "%s := %s - 1" % (w, w))
        self.features.add("while")

    def s_handle(self, ind):
        if self.handle_depth >= 2:
            return False
        d = self.handle_depth
        k = self.i(0, 2)
        as_def = self.chance(30)
        fin_def = as_def and self.chance(40)
        if as_def:
            name = self.pick(self.binder_pool())
            self.emit(ind, "def %s%s := hr(%d) handle" % ("fin " if fin_def else "", name, k))
        else:
            self.emit(ind, "hr(%d) handle" % k)
        arms = [("ea%d" % d, "HErr", "E1"), ("eb%d" % d, "HErr2", "E2")]
        if self.chance(50):
            arms.reverse()
        self.handle_depth += 1
        for (v, cls, ty) in arms:
            self.emit(ind + 1, "%s: %s =>" % (v, cls))
            self.push()
            self.define(v, Var(True, ty, assignable=False))
            if as_def:
                self.gray[-1].add(name)   # whether the variable being defined is visible in its own arms is not documented
            if self.chance(50):
                self.emit(ind + 2, ("ge(%s)" if ty == "E1" else "ge2(%s)") % v)
            self.block(ind + 2, 1, 2)
            if as_def:
                self.emit(ind + 2, self.int_atom())
            self.pop()
        self.handle_depth -= 1
        if as_def:
            self.define(name, Var(not fin_def))
        self.features.add(("handle_def_fin" if fin_def else "handle_def") if as_def else "handle")

    # top-level items ---------------------------------------------------------------------------------
    def function(self):
        self.n_fun += 1
        f = "fn%d" % self.n_fun
        fins = [self.chance(40), self.chance(40)]
        self.emit(0, "def %s(%s, cb: (Int) -> Int) =>" % (f, ", ".join("%s%s: Int" % ("fin " if fin else "", p) for p, fin in zip(PARAMS, fins))))
        saved = (self.fun_base, self.in_fun)
        self.push()
        self.fun_base = len(self.scopes) - 1
        self.in_fun = True
        for p, fin in zip(PARAMS, fins):
            self.define(p, Var(not fin))
        self.define("cb", Var(True, "F", assignable=False))
        self.block(1, 2, 4)
        self.pop()
        self.fun_base, self.in_fun = saved
        self.emit(0, "%s(%d, %d, \\cz: Int => cz + 1)" % (f, self.i(0, 3), self.i(0, 3)))
        self.features.add("function")

    def klass(self):
        self.n_cls += 1
        c = "KN%d" % self.n_cls
        self.emit(0, "class %s(def f: Int)" % c)
        self.emit(1, "def g: Int := %d" % self.i(0, 5))
        for mi in range(self.i(1, 2)):
            fin_self = self.chance(45)
            self.emit(1, "def m%d(%sself, pa: Int) =>" % (mi, "fin " if fin_self else ""))
            saved = (self.fun_base, self.in_fun, self.self_mut)
            self.push()
            self.fun_base = len(self.scopes) - 1
            self.in_fun = True
            self.self_mut = not fin_self
            self.define("pa", Var(True))
            self.block(2, 1, 3)
            self.pop()
            self.fun_base, self.in_fun, self.self_mut = saved
            self.features.add("method_fin_self" if fin_self else "method")
        fin = self.chance(45)
        r = "kv%d" % self.n_cls
        self.emit(0, "def %s%s := %s(%d)" % ("fin " if fin else "", r, c, self.i(0, 5)))
        self.define(r, Var(not fin, "K"))
        self.receivers[r] = c
        self.emit(0, "%s.m0(%d)" % (r, self.i(0, 3)))

    # fault planting ------------------------------------------------------------------------------------
    def plant(self, ind):
        if self.fault == "read":
            pools = set(GLOBAL_POOL + FUN_POOL + PARAMS) | self.ever_defined | {"ea0", "eb0", "zq"}
            cands = sorted(n for n in pools if self.lookup(n) is None and not n.startswith(("wk", "kv", "bl")))
            if not cands:
                return False
            n = self.pick(cands)
            if n.startswith("ea"):
                form = "ge(%s)"
            elif n.startswith("eb"):
                form = "ge2(%s)"
            else:
                forms = ["gi(%s)", "gi(%s)", "print(%s)", "def zz := %s", "gi(%s + 1)", "if %s > 0 then print(1)", "def zy := %s isa Int",
                         "def zy := (%s + 1) isa Int"]
                if isinstance(self.lookup("cb"), Var):
                    forms += ["gi(cb(%s))", "gi(cb(%s))", "def zx: Int := cb(%s + 1)"]
                form = self.pick(forms)
            self.emit(ind, form % n)
            self.fault_done = {"kind": "read_undefined", "name": n, "defined_elsewhere": n in self.ever_defined,
                               "in_function": self.in_fun, "depth": len(self.scopes) - 1}
            return True
        # assign
        opts = []
        fin_names = self.visible(lambda n, v: v.ty in ("I", "X") and not v.mut)
        if fin_names:
            opts += ["fin_var"] * 3
            if self.assign_targets() or len(fin_names) > 1:
                opts.append("fin_tuple")
            if len(self.assign_targets()) >= 2:
                opts += ["fin_nested_tuple"] * 2
        undefined = sorted(n for n in set(GLOBAL_POOL + FUN_POOL) | {"zq"} if self.lookup(n) is None)
        if undefined:
            opts.append("undefined")
        if self.self_mut is False:
            opts += ["fin_self"] * 3
        fin_recv = [r for r in self.receivers if isinstance(self.lookup(r), Var) and self.lookup(r).ty == "K" and not self.lookup(r).mut]
        if fin_recv and not self.in_fun:
            opts += ["fin_receiver"] * 2
        if not opts:
            return False
        k = self.pick(opts)
        op = self.pick([":=", ":=", "+=", "-="])
        if k == "fin_var":
            n = self.pick(fin_names)
            self.emit(ind, "%s %s %s" % (n, op, self.int_atom()))
        elif k == "fin_tuple":
            n = self.pick(fin_names)
            others = [m for m in self.assign_targets() + fin_names if m != n]
            m = self.pick(others)
            pair = (n, m) if self.chance(50) else (m, n)
            self.emit(ind, "(%s, %s) := (1, 2)" % pair)
        elif k == "fin_nested_tuple":
            n = self.pick(fin_names)
            others = list(self.draw(st.permutations(self.assign_targets())))[:2]
            names = others + [n]
            names = [names[i] for i in self.draw(st.permutations([0, 1, 2]))]
            shape = self.pick(["(%s, (%s, %s)) := (1, (2, 3))", "((%s, %s), %s) := ((1, 2), 3)"])
            self.emit(ind, shape % tuple(names))
        elif k == "undefined":
            n = self.pick(undefined)
            self.emit(ind, "%s %s %s" % (n, op, self.int_atom()))
        elif k == "fin_self":
            n = "self.g"
            self.emit(ind, "self.g %s %s" % (op, self.int_atom()))
        else:
            r = self.pick(fin_recv)
            n = r + "." + self.pick(["f", "g"])
            self.emit(ind, "%s %s %s" % (n, op, self.int_atom()))
        self.fault_done = {"kind": k, "name": n, "op": op, "in_function": self.in_fun, "depth": len(self.scopes) - 1}
        return True

    # whole program ---------------------------------------------------------------------------------------
    def program(self):
        n_items = self.i(2, 4)
        for _ in range(n_items):
            what = self.pick(["stmt", "stmt", "stmt", "fun", "class"])
            if what == "fun" and self.n_fun < 2:
                self.function()
            elif what == "class" and self.n_cls < 2:
                self.klass()
            else:
                self.statement(0)
        # a fault that found no slot yet gets a last chance at top level
        if self.fault and self.fault_done is None:
            self.slot = self.fault_slot
            self.statement(0)
        return HEADER + "\n".join(self.lines) + "\n"


@st.composite
def scope_case(draw, fault_kind, exec_safe):
    """fault_kind: "assign" (C07) or "read" (C09). Two thirds of the cases carry one fault, one third none."""
    with_fault = draw(st.integers(0, 2)) > 0
    g = SG(draw, fault=fault_kind if with_fault else None, exec_safe=exec_safe)
    src = g.program()
    planted = g.fault_done is not None
    return {"gen": "scope", "src": src, "expect": "err" if planted else "ok", "fault": g.fault_done,
            "features": sorted(g.features)}


# ----------------------------------------------------------------------------------------------------------
# constructors: definite assignment of fields
# ----------------------------------------------------------------------------------------------------------
CT_HEADER = """def gi(k: Int) => print(k)
def gi2(k: Int) -> Int => k + 1
class P(def b: Int)
"""


class CG:
    """Body of an explicit __init__ over fields u, v, w: Int (no initialiser), q: P (no initialiser), z: Int := 5.
    The model is the set of fields assigned on every path to the current point."""

    FIELDS = ["u", "v", "w", "q"]

    def __init__(self, draw, fault):
        self.draw = draw
        self.fault = fault
        self.lines = []
        self.budget = 10
        self.slot = 0
        self.fault_slot = draw(st.integers(1, 8)) if fault else -1
        self.fault_done = None
        self.features = set()

    def i(self, lo, hi):
        return self.draw(st.integers(lo, hi))

    def chance(self, pct):
        return self.i(0, 99) < pct

    def pick(self, seq):
        seq = list(seq)
        return seq[self.i(0, len(seq) - 1)]

    def emit(self, ind, text):
        self.lines.append("    " * ind + text)

    def value(self, f, assigned):
        if f == "q":
            return "P(%d)" % self.i(0, 5)
        srcs = [str(self.i(0, 9)), "p", "self.z"] + ["self.%s" % a for a in sorted(assigned) if a != "q"]
        return self.pick(srcs)

    def stmt(self, ind, assigned, depth):
        """returns the set of fields assigned after the statement"""
        self.slot += 1
        if self.fault and self.fault_done is None and self.slot >= self.fault_slot:
            missing = [f for f in self.FIELDS if f not in assigned]
            if missing:
                f = self.pick(missing)
                if f == "q":
                    form = self.pick(["self.q.b := 1", "gi(self.q.b)", "self.q.b += 1"])
                else:
                    form = self.pick(["gi(self.%s)", "print(self.%s)", "def loc := self.%s + 1", "self.z := self.%s",
                                      "if self.%s > 0 then print(1)", "self.%s := self.%s + p", "self.%s := gi2(self.%s)",
                                      "self.%s += 1"]).replace("%s", f)
                self.emit(ind, form)
                self.fault_done = {"kind": "field_read_before_assignment", "field": f, "form": form, "depth": depth}
                return assigned
        self.budget -= 1
        opts = ["assign"] * 4 + ["read"] * 2 + ["nested_write"]
        if depth < 2 and self.budget > 0:
            opts += ["if_else", "if_else", "if_only", "match", "for"]
        k = self.pick(opts)
        if k == "assign":
            f = self.pick(self.FIELDS + ["z"])
            self.emit(ind, "self.%s := %s" % (f, self.value(f, assigned)))
            return assigned | ({f} if f != "z" else set())
        if k == "read":
            have = sorted(a for a in assigned if a != "q") + ["z"]
            self.emit(ind, self.pick(["gi(self.%s)", "print(self.%s)"]) % self.pick(have))
            return assigned
        if k == "nested_write":
            if "q" in assigned:
                self.emit(ind, "self.q.b := %d" % self.i(0, 5))
                self.features.add("nested_write")
            else:
                self.emit(ind, "gi(p)")
            return assigned
        if k in ("if_else", "if_only"):
            self.emit(ind, "if c then")
            a = self.block(ind + 1, set(assigned), depth + 1)
            if k == "if_else":
                self.emit(ind, "else")
                b = self.block(ind + 1, set(assigned), depth + 1)
                self.features.add("if_else")
                return a & b
            self.features.add("if_only")
            return assigned
        if k == "match":
            self.emit(ind, "match p")
            outs = []
            for l in sorted(set(self.i(0, 3) for _ in range(self.i(1, 2)))):
                self.emit(ind + 1, "%d =>" % l)
                outs.append(self.block(ind + 2, set(assigned), depth + 1))
            self.emit(ind + 1, "_ =>")
            outs.append(self.block(ind + 2, set(assigned), depth + 1))
            self.features.add("match")
            res = outs[0]
            for o in outs[1:]:
                res = res & o
            return res
        # loops: assignments inside do not count afterwards (the body may run zero times: `0 .. p` with p = 0, a while whose
        # condition is false at once)
        form = self.pick(["for it in 0 .. 2 do", "for it in 0 .. p do", "for it in 0 .. p do", "while self.z < 5 do"])
        self.emit(ind, form)
        self.block(ind + 1, set(assigned), depth + 1)
        if form.startswith("while"):
            self.emit(ind + 1, "self.z := 9")
            self.features.add("while")
        else:
            self.features.add("for_maybe_zero_times" if "p" in form else "for")
        return assigned

    def block(self, ind, assigned, depth):
        for _ in range(self.i(1, 3)):
            assigned = self.stmt(ind, assigned, depth)
        return assigned

    def partial(self, f):
        """the field is assigned where that does not count: in a loop body, on one side of an if, in one arm of a match"""
        form = self.pick(["for_p", "for_2", "while", "if_only", "if_else_one_side", "match_one_arm", "if_in_for"])
        a = "self.%s := %s" % (f, self.pick(["1", "p", "self.z"]))
        text = {"for_p": ["for it in 0 .. p do", "    " + a], "for_2": ["for it in 0 .. 2 do", "    " + a],
                "while": ["while self.z < 5 do", "    " + a, "    self.z := 9"], "if_only": ["if c then", "    " + a],
                "if_else_one_side": ["if c then", "    print(0)", "else", "    " + a],
                "match_one_arm": ["match p", "    0 => " + a, "    _ => print(0)"],
                "if_in_for": ["for it in 0 .. p do", "    if c then", "        " + a, "    else", "        " + a]}[form]
        for t in text:
            self.emit(2, t)
        self.features.add("partial:" + form)

    def program(self):
        # second fault kind: one field is assigned on some paths only (or never) by the whole constructor and read afterwards
        leave_out = None
        if self.fault and self.i(0, 3) == 0:
            self.fault_slot = 10 ** 6
            leave_out = self.pick(["u", "v", "w"])
        assigned = set()
        partial_at = self.i(0, 4) if leave_out else -1
        for k in range(self.i(2, 5)):
            if k == partial_at:
                self.partial(leave_out)
            assigned = self.stmt(2, assigned, 0)
        # complete the constructor: every field still missing is assigned at the end (the checker demands it)
        for f in self.FIELDS:
            if f not in assigned and f != leave_out:
                self.emit(2, "self.%s := %s" % (f, self.value(f, assigned)))
                assigned = assigned | {f}
        if leave_out and leave_out not in assigned:
            self.fault_done = {"kind": "field_not_assigned_on_every_path", "field": leave_out}
        # the class may have a parent that declares fields of the same names as nullable with an initial value: the fields this
        # class declares itself stay its own obligation
        parent = []
        inherit = ""
        if self.chance(40):
            names = [f for f in ("u", "v", "w") if self.chance(50)] or ["u"]
            parent = ["class PK"] + ["    def %s: Int? := None" % f for f in names] + ["    def pz: Int := 2"]
            inherit = ": PK"
            self.features.add("parent_declares_same_field_names")
        head = parent + ["class TK%s" % inherit, "    def u: Int", "    def v: Int", "    def w: Int", "    def q: P",
                         "    def z: Int := 5", "    def __init__(self, p: Int, c: Bool) =>"]
        tail = ["def t1 := TK(%d, True)" % self.i(0, 3), "def t2 := TK(%d, False)" % self.i(0, 3), "gi(t1.u + t2.v + t1.w + t2.w)"]
        return CT_HEADER + "\n".join(head + self.lines + tail) + "\n"


@st.composite
def ctor_case(draw):
    with_fault = draw(st.integers(0, 2)) > 0
    g = CG(draw, with_fault)
    src = g.program()
    planted = g.fault_done is not None
    return {"gen": "ctor", "src": src, "expect": "err" if planted else "ok", "fault": g.fault_done,
            "features": sorted(g.features)}
