"""C06 — null safety: None and T? never flow into non-nullable positions."""
from hypothesis import strategies as st

from pbt import sites
from pbt.worker import outcome

WORLD = """class A(def a: Int)
    def ma(fin self, k: Int) -> Int => k + self.a
class HErr(msg: Str): Exception(msg)
def hr() raise [HErr] => print(1)
def vb: Bool := True
def vi: Int := 3
def vs: Str := "s"
def vf: Float := 2.5
def va: A := A(1)
def ni: Int? := None
def ns: Str? := "q"
def nf: Float? := 1.5
def na: A? := A(7)
class W(def wi: Int, def ws: Str, def wf: Float, def wa: A, def wio: Int?, def wso: Str?, def wfo: Float?, def wao: A?)
    def set_i(self, k: Int) => self.wi := k
    def set_s(self, k: Str) => self.ws := k
    def set_f(self, k: Float) => self.wf := k
    def set_a(self, k: A) => self.wa := k
    def seto_i(self, k: Int?) => self.wio := k
    def seto_s(self, k: Str?) => self.wso := k
    def seto_f(self, k: Float?) => self.wfo := k
    def seto_a(self, k: A?) => self.wao := k
class B(bx: Int): A(bx)
def nb: B? := None
def gn_b() -> B? => nb
def vw: W := W(1, "w", 0.5, va, ni, ns, nf, na)
def f_i(p: Int) -> Int => 1
def f_s(p: Str) -> Int => 1
def f_f(p: Float) -> Int => 1
def f_a(p: A) -> Int => 1
def fo_i(p: Int?) -> Int => 1
def fo_s(p: Str?) -> Int => 1
def fo_f(p: Float?) -> Int => 1
def fo_a(p: A?) -> Int => 1
def gn_i() -> Int? => ni
def gn_s() -> Str? => ns
def gn_f() -> Float? => nf
def gn_a() -> A? => na
"""

T = {"i": "Int", "s": "Str", "f": "Float", "a": "A"}
TVAL = {"i": ["4", "vi"], "s": ['"t"', "vs"], "f": ["0.25", "vf"], "a": ["A(2)", "va"]}
NVAR = {"i": "ni", "s": "ns", "f": "nf", "a": "na", "b": "nb"}
# a nullable value of a proper subtype flowing into a position of the supertype: Int? into Float, B? into A (B: A)
WIDEN = {"f": "i", "a": "b"}
SUBVAL = {"i": ["4", "vi"], "b": ["B(2)"]}
VAR = {"i": "vi", "s": "vs", "f": "vf", "a": "va"}
SWITCHES = set()
EXCLUDED = {}
CONSUMERS = ["init", "assign", "field_assign", "fun_arg", "method_arg", "ctor_arg", "return", "return_explicit", "operand_left",
             "operand_right", "method_receiver"] + ["fun_arg_defaulted", "method_arg_defaulted", "ctor_arg_defaulted",
                                                    "init_arg_defaulted", "ctor_first_field_assign", "ctor_second_field_assign",
                                                    "ctor_branch_field_assign"]
EXTRA_CONSUMERS = CONSUMERS[11:]
NULL_SOURCES = ["none", "var", "call", "ifexpr_then", "ifexpr_else"]


def null_source(draw, t, kind):
    if kind == "none":
        return "None"
    if kind == "var":
        return NVAR[t]
    if kind == "call":
        return "gn_%s()" % t
    v = draw(st.sampled_from(TVAL[t] if t in TVAL else SUBVAL[t]))
    if kind == "ifexpr_then":
        return "(if vb then None else %s)" % v
    return "(if vb then %s else None)" % v


def consumer(draw, c, t, value, nullable_target, null_value=False):
    """-> (defs, stmts) where `value` flows into a position of type T (or T? when nullable_target)."""
    ty = T[t] + ("?" if nullable_target else "")
    o = "o" if nullable_target else ""
    if c == "init":
        return [], ["def res: %s := %s" % (ty, value)]
    if c == "assign":
        if nullable_target:
            return [], ["%s := %s" % (NVAR[t], value)]
        return [], ["%s := %s" % (VAR[t], value)]
    if c == "field_assign":
        return [], ["vw.w%s%s := %s" % (t, o, value)]
    if c == "fun_arg":
        return [], ["def res: Int := f%s_%s(%s)" % (o, t, value)]
    if c == "method_arg":
        return [], ["vw.set%s_%s(%s)" % (o, t, value)]
    if c == "ctor_arg":
        args = ["1", '"w"', "0.5", "va", "ni", "ns", "nf", "na"]
        idx = "isfa".index(t) + (4 if nullable_target else 0)
        args[idx] = value
        return [], ["def res := W(%s)" % ", ".join(args)]
    if c == "return":
        return ["def rf(rp: Int) -> %s => %s" % (ty, value)], ["rf(1)"]
    if c == "return_explicit":
        other = draw(st.sampled_from(TVAL[t]))
        return ["def rf(rp: Int) -> %s =>" % ty, "    if rp > 0 then return %s" % value, "    %s" % other], ["rf(1)"]
    dflt = "None" if nullable_target else TVAL[t][0]
    if c == "fun_arg_defaulted":
        return ["def fd(p0: Int, p: %s := %s) -> Int => p0" % (ty, dflt)], ["def res: Int := fd(1, %s)" % value]
    if c == "method_arg_defaulted":
        return ["class MD(def md: Int)", "    def fd(self, p0: Int, p: %s := %s) -> Int => p0" % (ty, dflt), "def vmd := MD(1)"], \
            ["def res: Int := vmd.fd(1, %s)" % value]
    if c == "ctor_arg_defaulted":
        return ["class WD(def d0: Int, def d: %s := %s)" % (ty, dflt)], ["def res := WD(1, %s)" % value]
    if c == "init_arg_defaulted":
        return ["class WD", "    def d: %s" % ty, "    def __init__(self, p0: Int, p: %s := %s) =>" % (ty, dflt), "        self.d := p"], \
            ["def res := WD(1, %s)" % value]
    if c in ("ctor_first_field_assign", "ctor_second_field_assign", "ctor_branch_field_assign"):
        # the value reaches the field inside an explicit constructor: as the assignment that establishes the field, as a later
        # one, or as the first one on one of two paths; a nullable parameter `src` is one more source of null in there
        head = ["class KC", "    def y: %s" % ty, "    def __init__(self, src: %s?, c: Bool) =>" % T[t]]
        v = "src" if (nullable_target or null_value) and value != "None" and draw(st.integers(0, 3)) == 0 else value
        if c == "ctor_first_field_assign":
            body = ["        self.y := %s" % v]
        elif c == "ctor_second_field_assign":
            body = ["        self.y := %s" % TVAL[t][0], "        self.y := %s" % v]
        else:
            first = draw(st.booleans())
            body = ["        if c then", "            self.y := %s" % (v if first else TVAL[t][0]), "        else",
                    "            self.y := %s" % (TVAL[t][0] if first else v)]
        return head + body, ["def res := KC(%s, True)" % draw(st.sampled_from(["None", NVAR[t], TVAL[t][0]]))]
    raise ValueError(c)


@st.composite
def _case(draw):
    t = draw(st.sampled_from(sorted(T)))
    position = draw(st.sampled_from(sites.POSITIONS))
    direction = draw(st.sampled_from(["reject", "reject", "accept"]))
    if direction == "reject":
        c = draw(st.sampled_from(CONSUMERS))
        src_kind = draw(st.sampled_from(NULL_SOURCES))
        if False and "no_ifexpr_into_assign" in SWITCHES and src_kind.startswith("ifexpr") and c in ("assign", "field_assign", "method_arg"):
            # open finding F44: redirected to a variable source, counted
            EXCLUDED["no_ifexpr_into_assign"] = EXCLUDED.get("no_ifexpr_into_assign", 0) + 1
            src_kind = "var"
        if c == "init" and src_kind in ("var", "call") and draw(st.integers(0, 2)) == 0:
            # the nullable source has the NAME of the definition it flows into (a shadowing definition reads the old variable)
            how = draw(st.sampled_from(["plain", "ifexpr", "in_function"]))
            val = draw(st.sampled_from(["None", TVAL[t][0]]))
            if how == "plain":
                stmts = ["def sh: %s? := %s" % (T[t], val), "def sh: %s := sh" % T[t]]
            elif how == "ifexpr":
                stmts = ["def sh: %s? := %s" % (T[t], val), "def sh: %s := if vb then sh else %s" % (T[t], TVAL[t][0])]
            else:
                stmts = ["def shf(sh: %s?) -> %s =>" % (T[t], T[t]), "    def sh: %s := sh" % T[t], "    return sh"]
            pos = position if how != "in_function" else "top"
            return {"src": WORLD + "\n".join(sites.place(pos, stmts)) + "\n", "direction": "reject", "consumer": "init",
                    "source": "shadowed_" + how, "type": T[t], "position": pos, "expect": "err"}
        widen = t in WIDEN and draw(st.integers(0, 2)) == 0
        if widen and src_kind == "none":
            src_kind = "var"
        s = null_source(draw, WIDEN[t] if widen else t, src_kind)
        if widen:
            src_kind = src_kind + "_of_subtype"
        if c == "operand_left":
            if t == "a":
                c = "method_receiver"
            else:
                stmts = ["def res := %s %s %s" % (s, {"i": "+", "s": "+", "f": "*"}[t], TVAL[t][0])]
                defs = []
        if c == "operand_right":
            if t == "a":
                c = "method_receiver"
            else:
                stmts = ["def res := %s %s %s" % (TVAL[t][1], {"i": "-", "s": "+", "f": "+"}[t], s)]
                defs = []
        if c == "method_receiver":
            t = "a"
            widen_r = draw(st.integers(0, 2)) == 0
            sk = src_kind.replace("_of_subtype", "")
            if widen_r and sk == "none":
                sk = "var"
            s = null_source(draw, "b" if widen_r else "a", sk)
            src_kind = sk + ("_of_subtype" if widen_r else "")
            defs, stmts = [], ["def res: Int := %s.ma(1)" % s]
        elif c not in ("operand_left", "operand_right"):
            defs, stmts = consumer(draw, c, t, s, False, True)
        return {"src": WORLD + "\n".join(defs + sites.place(position, stmts)) + "\n", "direction": "reject", "consumer": c,
                "source": src_kind, "type": T[t], "position": position, "expect": "err"}
    # accept: T -> T?, None -> T?, T? -> T?, x ? d -> T
    flow = draw(st.sampled_from(["t_into_opt", "none_into_opt", "opt_into_opt", "default_into_t"]))
    c = draw(st.sampled_from(["init", "assign", "field_assign", "fun_arg", "method_arg", "ctor_arg", "return", "return_explicit"]
                             + EXTRA_CONSUMERS))
    if flow == "t_into_opt":
        v = draw(st.sampled_from(TVAL[t]))
        defs, stmts = consumer(draw, c, t, v, True)
    elif flow == "none_into_opt":
        defs, stmts = consumer(draw, c, t, "None", True)
    elif flow == "opt_into_opt":
        v = draw(st.sampled_from([NVAR[t], "gn_%s()" % t]))
        if c == "assign" and v == NVAR[t]:
            v = "gn_%s()" % t
        defs, stmts = consumer(draw, c, t, v, True)
    else:
        d = draw(st.sampled_from(TVAL[t]))
        v = "%s ? %s" % (NVAR[t], d)
        if c in ("fun_arg", "method_arg", "ctor_arg") or c.endswith("_defaulted"):
            v = "(%s)" % v
        defs, stmts = consumer(draw, c, t, v, False)
    return {"src": WORLD + "\n".join(defs + sites.place(position, stmts)) + "\n", "direction": "accept", "consumer": c,
            "source": flow, "type": T[t], "position": position, "expect": "ok"}


class C06:
    id = "C06"
    cases = {"quick": 500, "thorough": 20000}
    rule = ("a world with Int/Str/Float/A variables, their nullable counterparts, functions, methods, a constructor and fields of "
            "T and T? type, and functions returning T?; one site per case, planted at one of 12 positions. reject cases (2/3): a "
            "source of null (None literal, T? variable, call returning T?, if-expression with None in either branch) flows into a "
            "position that requires T: annotated initialiser, new value of a variable, of a field, argument of a function / method "
            "/ constructor, an explicit argument for a parameter WITH a default value (function, method, class arguments, __init__), the "
            "first / a later / a one-path-only assignment to a field inside an explicit constructor, tail or explicit return of a function returning T, left or right operand of an operator of T, receiver "
            "of a method of T. accept cases (1/3): T, None and T? into the T? version of the same positions, and `x ? d` into T. "
            "Oracle: reject => rejected with diagnostics, accept => accepted. Non-trivial: every case; distinct by SHA-1 of the "
            "source; the consumer x source x type x direction matrix is reported and an empty reject cell prints a warning.")
    assumptions = ["`x ? d` is only written with a variable on the left (as the docs show it)",
                   "field reads through a nullable receiver are not judged here (the statement names operators and methods); "
                   "C04 executes them",
                   "a verdict that differs from the expectation is re-run 10x; an unstable verdict is C12's finding"]
    strict = False
    required_classes = []

    def strategy(self, tier, switches):
        SWITCHES.update(s.split(".", 1)[1] for s in switches if "." in s)
        return _case()

    def summarize(self, case):
        return {k: case[k] for k in ("direction", "consumer", "source", "type", "position", "expect")} | \
            {"tail": case["src"][len(WORLD):]}

    def check(self, worker, case, stats):
        r = worker.transpile1(case["src"], False)
        oc = outcome(r)
        if oc not in ("ok", "err"):
            stats.inc("crash_left_to_C03")
            return None
        for k, v in list(EXCLUDED.items()):
            stats.inc("excluded_known:" + k, v)
        EXCLUDED.clear()
        stats.inc("cell:%s/%s/%s" % (case["direction"], case["consumer"], case["source"]))
        stats.inc("type:" + case["type"])
        stats.inc("position:" + case["position"])
        stats.mark_nontrivial({"src": case["src"]}, sample=self.summarize(case), key=(case["direction"], case["consumer"]))
        if oc == case["expect"]:
            if oc == "err" and not (r["err"] and all(isinstance(d, str) and d.strip() for d in r["err"])):
                return {"what": "rejection without diagnostics"}
            return None
        rr = worker.call({"op": "transpile_rep", "files": [[case["src"], None]], "dir": "", "annotate": False, "k": 10})
        if any(outcome(x) != oc for x in rr.get("results", [])):
            stats.inc("nondeterministic_left_to_C12")
            return None
        tail = case["src"][len(WORLD):]
        if case["expect"] == "err":
            return {"what": "null flows into a %s position: %s <- %s (%s) at %s is accepted"
                            % (case["type"], case["consumer"], case["source"], case["type"], case["position"]), "tail": tail}
        return {"what": "%s into %s? (%s) at %s is rejected" % (case["source"], case["type"], case["consumer"], case["position"]),
                "diagnostics": r["err"][:2], "tail": tail}
