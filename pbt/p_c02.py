"""C02 — every emitted file is syntactically valid Python 3."""
import re

from hypothesis import strategies as st

from pbt import inputs, pyoracle, widegen
from pbt.engine import load_known_findings
from pbt.worker import outcome

INTS = ["0", "7", "007", "00", "0123", "1_000", "12345678901234567890123", "0x10", "0b1", "0o7", "1e3", "1E3", "1E", "1E0",
        "1E-2", "1E+2", "2.5E3", "1.", ".5", "1.5", "1.5.2", "00.5", "1..2", "1.E3", "2E03", "1E007", "1E00", "007E2", "007E02", "1.50E02",
        "0E0", "00E00", "1E-03", "1_0E0_1", "12E3E4"]
STRS = ['""', '"a"', '"a\\"b"', '"a\\\\"', '"\\n"', '"\\"', '"{"', '"}"', '"{}"', '"{{"', '"}}"', '"{{}}"', '"{x}"',
        '"{ x }"', '"{x}{x}"', '"{x + 1}"', '"{"q"}"', '"{x}\\\\"', '"a\nb"', '"a\n{x}\nb"', '"\'"', '"\'\'\'"',
        '"""doc"""', '"""d"c"""', '"""a\nb"""', '"""\\"""', '"é"', '"\\x"', '"\\{x\\}"', '"%s"', '"{x!r}"', '"{x:>3}"',
        '"{x = }"', '"#"', '"a # b"', '"\\t"', '"{x}" + "{x}"', '"a \\{ b"', '"a \\{ b {x}"', '"{x} \\}"', '"a\r\nb"', '"a\rb"',
        '"a\r\n{x}"', '"\\r"', '"\\0"', '"\\1"', '"a\fb"', '"a\x0bb"', '"tab\there"', '"{x}\r"', '"abc\\\\"', '"\\\\{x}"', '"C:\\\\{x}\\\\"', '"{} and {x}"', '"{ } {x}"',
        '"{}"', '"{x} {}"', '"\\\\\\""', '"{x}\\\\"']
IDS = ["lambda", "try", "global", "yield", "del", "assert", "async", "await", "except", "finally", "nonlocal", "elif",
       "print", "exec", "True_", "None_", "_x", "__x__", "x1", "X", "list", "str", "int", "type_", "object", "super",
       "cls", "ClassName"]


@st.composite
def literal_stress(draw):
    """Small programs around one hostile literal or identifier."""
    kind = draw(st.sampled_from(["int", "str", "id", "idfun", "idclass", "idfield", "empty", "doc", "arms"]))
    if kind == "int":
        lit = draw(st.sampled_from(INTS))
        ctx = draw(st.sampled_from(["def x := %s\n", "def x: Int := %s\n", "print(%s)\n", "def x := 1 + %s\n",
                                    "def f(a: Int := %s) => print(a)\n", "def l := [%s, 2]\n", "for i in 0 .. %s do print(i)\n", "def s := \"{%s}\"\n",
                                    "def x := -%s\n", "def x := 2 ^ %s\n", "def x := %s * %s\n".replace("%s * %s", "%s * 3")]))
        return {"gen": "lit-int", "src": ctx % lit}
    if kind == "str":
        lit = draw(st.sampled_from(STRS))
        ctx = draw(st.sampled_from(["def x := 1\ndef s := %s\n", "def x := 1\nprint(%s)\n", "def x := 1\ndef s: Str := %s\nprint(s)\n",
                                    "def x := 1\ndef f(a: Str := %s) => print(a)\n", "def x := 1\nif %s = \"a\" then print(1)\n",
                                    "def x := 1\ndef l := [%s]\n", "def x := 1\nmatch \"a\"\n    %s => print(1)\n    _ => print(2)\n",
                                    "def x := 1\ndef s := %s + \"t\"\nprint(s)\n", "def x := 1\ndef s := \"t\" + %s + \"u\"\n"]))
        return {"gen": "lit-str", "src": ctx % lit}
    name = draw(st.sampled_from(IDS))
    if kind == "id":
        return {"gen": "ident", "src": "def %s := 3\nprint(%s)\n" % (name, name)}
    if kind == "idfun":
        return {"gen": "ident", "src": "def %s(a: Int) -> Int => a + 1\nprint(%s(2))\n" % (name, name)}
    if kind == "idclass":
        return {"gen": "ident", "src": "class K(def %s: Int)\n    def %s2(self) -> Int => self.%s\ndef k := K(1)\nprint(k.%s)\n"
                % (name, name, name, name)}
    if kind == "idfield":
        return {"gen": "ident", "src": "def f(%s: Int) -> Int => %s * 2\nprint(f(1))\n" % (name, name)}
    if kind == "empty":
        return {"gen": "empty-body", "src": draw(st.sampled_from([
            "class A\n", "class A\n    # c\n", "class A()\n", "def f() => pass\n", "def f() =>\n    pass\n",
            "def f() =>\n    # only a comment\n    pass\n", "if True then pass\n", "if True then pass else pass\n",
            "while False do pass\n", "for i in 0 .. 1 do pass\n", "class A\n    def f(self) => pass\n",
            "type T\n    def f(self) -> Int\n", "type T\n", "class E: Exception(\"m\")\n", "match 1\n    _ => pass\n",
            "def f(vararg a: Int) => pass\n", "def f(vararg a: Int := 3) => pass\n", "def f(a: Int := 1, vararg b: Int) => pass\n",
            "class A\n    def x: Int\n", "class A\n    def fin x: Int := 1\n", "def x: Int\n", "def (a, b): (Int, Int)\n",
            "def f() -> Int?\n", "def f()\n", "import a\n", "from a import b\n", "from a import b as c\n", "import a as b\n",
            "with open(\"f\") as g do pass\n", "with open(\"f\") do pass\n",
            "type T\n    def m(self) -> Int =>\n        def f() -> Int\n        1\n", "class K\n    def m(self) -> Int =>\n        def g(x: Int) -> Int\n        1\n",
            "def f() =>\n    def g() -> Int\n    print(1)\n", "type T\n    def m(self) -> Int\n    def n(self) =>\n        def h()\n        pass\n",
        ]))}
    if kind == "doc":
        return {"gen": "docstring", "src": draw(st.sampled_from([
            '"""module doc"""\ndef x := 1\n', 'def f() =>\n    """doc"""\n    print(1)\n',
            'class A\n    """doc"""\n    def x: Int := 1\n', 'def f() =>\n    """doc"""\n', '"""a"""\n"""b"""\n',
            'def f() =>\n    """multi\n    line"""\n    print(1)\n', 'def f() => """doc"""\n',
        ]))}
    return {"gen": "match-arms", "src": draw(st.sampled_from([
        "match 1\n    _ => print(1)\n    2 => print(2)\n", "match 1\n    n => print(n)\n    _ => print(2)\n",
        "match 1\n    1 => print(1)\n    1 => print(2)\n", "def x := match 1\n    _ => 1\n    2 => 2\n",
        "match (1, 2)\n    (1, 2) => print(1)\n    _ => print(2)\n", "match \"a\"\n    \"a\" => print(1)\n",
        "match 1.5\n    1.5 => print(1)\n    _ => print(2)\n", "match True\n    True => print(1)\n    False => print(2)\n",
        "match None\n    None => print(1)\n", "match 1\n    1 =>\n        print(1)\n        print(2)\n    _ => pass\n",
    ]))}


PARAMS = ["a: Int", "b: Str", "fin c: Int", "d: Int := 1", "e: Str := \"s\"", "vararg v: Int", "vararg w: Str", "a: Int",
          "g: () -> Int", "h: (Int) -> Int", "k: (Int, Str) -> Bool", "m: () -> ()", "n: (() -> Int) -> Int", "t: (Int, Str)",
          "u: {Int, Str}", "o: Int?", "l: List[Int]", "q: Dict[Str, Int]", "r: (Int?, Str)", "s: List[(Int, Str)]",
          "x: () -> Int?", "y: {() -> Int, Int}"]
TARGETS = ["x", "x: Int", "fin x", "(a, b)", "(a, b): (Int, Int)", "fin (a, b)", "(a, (b, c))"]
BLOCK_IF = "if c then\n{i}    print(1)\n{i}    {v1}\n{i}else\n{i}    print(2)\n{i}    {v2}"
BLOCK_MATCH = "match n\n{i}    1 =>\n{i}        print(1)\n{i}        {v1}\n{i}    _ =>\n{i}        {v2}"


@st.composite
def shape_stress(draw):
    """Signatures, definition targets x initialiser forms, value positions: shapes where the generator has to choose between
    an expression and a statement form, or has to print a list that may be empty."""
    kind = draw(st.sampled_from(["signature", "signature", "target_init", "target_init", "value_position", "nested_ternary",
                                 "operand_forms"]))
    if kind == "operand_forms":
        # forms that Python's grammar does not take as a bare operand (not, a sign, a conditional expression, a lambda) below
        # every kind of binary operator, in the statement positions where expressions occur
        op, l, ty = draw(st.sampled_from([("=", "p", "B"), ("!=", "p", "B"), ("and", "p", "B"), ("or", "p", "B"), ("is", "p", "B"),
                                          ("+", "a", "I"), ("-", "a", "I"), ("*", "a", "I"), ("^", "a", "I"), ("//", "a", "I"),
                                          ("mod", "a", "I"), ("<", "a", "I"), (">=", "a", "I"), ("=", "a", "I"), ("<<", "a", "I"),
                                          ("_and_", "a", "I"), ("in", "a", "L")]))
        forms = {"B": ["not q", "(not q)", "not (q or p)", "not not q", "if q then p else q", "(if q then p else q)", "not a = b",
                       "a isnta Int", "not a isa Int"],
                 "I": ["-b", "- -b", "(-b)", "+b", "_not_ b", "if p then a else b", "(if p then a else b)", "-b ^ 2", "(-b) ^ 2"],
                 "L": ["[b, -b]", "[b | b in [1, 2], not p]", "{b, -b}"]}[ty]
        r = draw(st.sampled_from(forms))
        e = "%s %s %s" % (l, op, r) if draw(st.integers(0, 3)) else "%s %s %s" % (r, op, l) if ty != "L" else "%s %s %s" % (l, op, r)
        pos = draw(st.sampled_from(["def r := %s", "print(%s)", "if %s then print(1)", "def f() => %s", "def r := [%s, 1]",
                                    "def r := \\z: Int => %s", "print(\"{%s}\")", "while %s do\n    break", "def g(k: Int := 1) => print(k)\ng(%s)"]))
        src = "def a := 7\ndef b := 3\ndef p := True\ndef q := False\n" + pos % e + "\n"
        return {"gen": "shape-operand_forms", "src": src}
    if kind == "signature":
        n = draw(st.integers(0, 3))
        ps = [draw(st.sampled_from(PARAMS)) for _ in range(n)]
        where = draw(st.sampled_from(["def", "method", "class_args", "lambda", "interface", "init"]))
        ret = draw(st.sampled_from(["", " -> Int", " -> () -> Int", " -> (Int, Str)", " -> {Int, Str}", " -> Int?"]))
        sig = ", ".join(ps)
        if where == "def":
            src = "def f(%s)%s => pass\n" % (sig, ret if ret == "" else "")
            if ret:
                src = "def f(%s)%s\n" % (sig, ret)
        elif where == "method":
            src = "class K\n    def m(self%s) => pass\n" % ((", " + sig) if sig else "")
        elif where == "class_args":
            src = "class K(%s)\n" % ", ".join(("def " + p) if draw(st.booleans()) and not p.startswith(("vararg", "fin")) else p
                                              for p in ps)
        elif where == "lambda":
            names = [p.split(":")[0].replace("fin ", "").replace("vararg ", "") + ": Int" for p in ps]
            src = "def g := \\%s => 1\n" % ", ".join(names)
        elif where == "interface":
            src = "type T\n    def m(self%s)%s\n" % ((", " + sig) if sig else "", ret)
        else:
            src = "class K\n    def __init__(self%s) => pass\n" % ((", " + sig) if sig else "")
        return {"gen": "shape-signature", "src": src}
    vals = {"x": ("1", "2"), "x: Int": ("1", "2"), "fin x": ("1", "2"), "(a, b)": ("(1, 2)", "(3, 4)"),
            "(a, b): (Int, Int)": ("(1, 2)", "(3, 4)"), "fin (a, b)": ("(1, 2)", "(3, 4)"), "(a, (b, c))": ("(1, (2, 3))", "(4, (5, 6))")}
    if kind == "target_init":
        t = draw(st.sampled_from(TARGETS))
        v1, v2 = vals[t]
        form = draw(st.sampled_from(["plain", "if_line", "if_block", "match_block", "handle", "if_block_in_fun", "match_in_method"]))
        head = "def c := True\ndef n := 1\nclass E(m: Str): Exception(m)\ndef hr() -> Int raise [E] => 1\n"
        if form == "plain":
            body = "def %s := %s\n" % (t, v1)
        elif form == "if_line":
            body = "def %s := if c then %s else %s\n" % (t, v1, v2)
        elif form == "if_block":
            body = "def %s := %s\n" % (t, BLOCK_IF.format(i="", v1=v1, v2=v2))
        elif form == "match_block":
            body = "def %s := %s\n" % (t, BLOCK_MATCH.format(i="", v1=v1, v2=v2))
        elif form == "handle":
            hv = "hr()" if t.startswith(("x", "fin x")) else "(hr(), hr())" if "(b, c)" not in t else "(hr(), (hr(), hr()))"
            body = "def %s := %s handle\n    e: E =>\n        print(1)\n        %s\n" % (t, hv, v2)
        elif form == "if_block_in_fun":
            body = "def f() =>\n    def %s := %s\n    print(1)\nf()\n" % (t, BLOCK_IF.format(i="    ", v1=v1, v2=v2))
        else:
            body = "class K\n    def m(self) =>\n        def %s := %s\n        print(1)\n" % (t, BLOCK_MATCH.format(i="        ", v1=v1, v2=v2))
        return {"gen": "shape-target-init", "src": head + body}
    if kind == "value_position":
        form = draw(st.sampled_from(["if_block", "match_block", "if_line"]))
        v = {"if_block": BLOCK_IF.format(i="", v1="1", v2="2"), "match_block": BLOCK_MATCH.format(i="", v1="1", v2="2"),
             "if_line": "if c then 1 else 2"}[form]
        pos = draw(st.sampled_from(["x := %s", "x += %s", "print(%s)", "def l := [%s]", "def y := 1 + (%s)", "g(%s)",
                                    "def t := (%s, 1)", "def s := \"{%s}\"", "for i in 0 .. (%s) do print(i)",
                                    "while x < (%s) do x += 1", "if (%s) > 1 then print(1)", "def d := {1 => %s}"]))
        if form != "if_line" and ("{" in pos or "(%s)" in pos):
            pos = "x := %s"
        src = "def c := True\ndef n := 1\ndef x := 0\ndef g(k: Int) => print(k)\n" + (pos % v) + "\n"
        return {"gen": "shape-value-position", "src": src}
    # nested ternaries where a branch is a block
    inner = draw(st.sampled_from(["if c then 2 else 3", "pass", "if c then pass else 3", BLOCK_IF.format(i="", v1="2", v2="3"), "if c then\n    4\nelse 5",
                                  BLOCK_MATCH.format(i="", v1="2", v2="3")]))
    outer = draw(st.sampled_from(["def x := if c then 1 else %s", "def x := if c then %s else 1", "def x: Int := if c then 1 else %s",
                                  "def f() -> Int => if c then 1 else %s", "x := if c then 1 else %s", "print(if c then 1 else %s)"]))
    src = "def c := True\ndef n := 1\ndef x := 0\n".replace("def x := 0\n", "" if outer.startswith("def x") else "def x := 0\n")
    return {"gen": "shape-nested-ternary", "src": src + (outer % inner) + "\n"}


def _known_input_classes(prop_id):
    out = []
    for f in load_known_findings():
        if f.get("property") == prop_id and f.get("status") == "open" and f.get("input_class"):
            out.append((f["id"], re.compile(f["input_class"], re.S)))
    return out


class C02:
    id = "C02"
    cases = {"quick": 300, "thorough": 10000}
    rule = ("inputs: CoreGen programs, typed expression programs, the repository samples and seeds (fixed list), their "
            "1-3-mutation variants, and a literal/identifier stress generator (integers with leading zeros / huge / E-notation, "
            "reals like `1.` `.5`, strings with quotes, braces, backslashes, newlines, doc-strings, Python keywords as "
            "names, empty bodies, varargs, imports, match arm orders); both annotate settings. Oracle: every source returned "
            "on success passes compile(src, name, 'exec', dont_inherit=True) under CPython 3.11. Non-trivial: accepted and "
            "the module has >=1 statement; distinct by SHA-1 of source+flag. Inputs that fall into the input class of an open "
            "known finding are counted as excluded_known and not judged.")
    assumptions = ["CPython 3.11 is the Python 3 compiler (match statements need >= 3.10)", "only compile(), never execution"]
    strict = False

    def __init__(self):
        self._classes = _known_input_classes(self.id)

    def strategy(self, tier, switches):
        return st.one_of(inputs.sources(kinds=("core", "expr", "mut", "mut")), literal_stress(), shape_stress(), widegen.programs())

    def fixed_cases(self, tier, switches):
        return inputs.all_seed_cases()

    def summarize(self, case):
        return {"gen": case.get("gen"), "src": case["src"][:600]}

    def check(self, worker, case, stats):
        src = case["src"]
        stats.inc("gen:" + case.get("gen", "?"))
        for sn in case.get("snippets", []):
            stats.inc("wide_snippet:" + sn)
        if not self.strict:
            for fid, rx in self._classes:
                if rx.search(src):
                    stats.inc("excluded_known:" + fid)
                    return None
        any_ok = False
        for annotate in (False, True):
            r = worker.transpile1(src, annotate)
            oc = outcome(r)
            if oc != "ok":
                stats.inc("rejected" if oc == "err" else "crash_left_to_C03")
                continue
            any_ok = True
            for py in r["ok"]:
                err = pyoracle.compiles(py)
                if err:
                    return {"what": "emitted Python is rejected by CPython (annotate=%s): %s" % (annotate, err),
                            "python": py, "annotate": annotate}
        if any_ok:
            stats.inc("accepted")
            if src.strip():
                stats.mark_nontrivial({"src": src}, sample=self.summarize(case), key=case.get("gen"))
        return None
