"""Shared input strategies for the properties that only need *some* Mamba text: CoreGen programs (rendered),
typed expression programs, repository samples, own seeds and token-level mutations of them."""
from hypothesis import strategies as st

from pbt import apigen, corpus, exprgen, gen, model, mutate, widegen


def _texts(kind=None):
    if kind == "valid":
        return [t for _, t in corpus.own_seeds()] + [t for _, t in corpus.repo_samples("valid")]
    return [t for _, t in corpus.all_seeds()]


@st.composite
def sources(draw, kinds=("core", "expr", "seed", "mut"), profile=None, max_len=None):
    """-> dict(gen=..., src=...)"""
    k = draw(st.sampled_from(list(kinds)))
    if k == "core":
        prog = draw(gen.programs(profile))
        return {"gen": "core", "src": model.render_program(prog)}
    if k == "expr":
        p = draw(exprgen.program(depth=draw(st.integers(1, 3))))
        return {"gen": "expr", "src": p["src"]}
    if k == "wide":
        return draw(widegen.programs())
    if k == "api":
        return {"gen": "api", "src": draw(apigen.programs())["src"]}
    texts = _texts()
    if k == "seed":
        return {"gen": "seed", "src": texts[draw(st.integers(0, len(texts) - 1))]}
    if k == "mut1":
        m = draw(mutate.mutated(texts, max_mutations=1, max_len=max_len or 4096, max_lines=400))
        return {"gen": "mut", "src": m["text"], "kinds": m["kinds"]}
    m = draw(mutate.mutated(texts, max_mutations=3, max_len=max_len or 4096, max_lines=400))
    return {"gen": "mut", "src": m["text"], "kinds": m["kinds"]}


def all_seed_cases():
    for name, text in corpus.all_seeds():
        yield {"gen": "seed", "name": name, "src": text}
