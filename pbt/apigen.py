"""Generator of API-shaped programs (functions, classes, methods, operators) for C17, C16 and C15.

Bodies are trivial; what varies is everything that shows in the Python API: names, parameter lists, defaults,
varargs, class arguments with and without `def`, parents with arguments, several parents, interfaces, methods with
`self` / `fin self`, operator definitions, and the order in which fields and methods are mixed."""
from hypothesis import strategies as st

TYPES = ["Int", "Str", "Bool", "Float"]
LITS = {"Int": ["0", "7", "42"], "Str": ['"a"', '""', '"x y"'], "Bool": ["True", "False"], "Float": ["1.5", "0.25"]}
PYLIT = {"0": 0, "7": 7, "42": 42, '"a"': "a", '""': "", '"x y"': "x y", "True": True, "False": False, "1.5": 1.5, "0.25": 0.25}
OPERATORS = {"+": "__add__", "-": "__sub__", "*": "__mul__", "/": "__truediv__", "//": "__floordiv__", "^": "__pow__",
             "mod": "__mod__", "=": "__eq__", ">": "__gt__", "<": "__lt__"}
NAME_POOL = ["alpha", "beta", "gamma", "delta", "run", "value", "item", "count", "total", "name", "other", "data", "left",
             "right", "first", "last", "node", "edge", "make", "get", "put", "load", "store", "scale", "shift", "merge"]


class A:
    def __init__(self, draw, names=None):
        self.draw = draw
        self.used = set()
        self.pool = list(names or NAME_POOL)

    def int(self, lo, hi):
        return self.draw(st.integers(lo, hi))

    def chance(self, pct):
        return self.draw(st.integers(0, 99)) < pct

    def pick(self, seq):
        seq = list(seq)
        return seq[self.draw(st.integers(0, len(seq) - 1))]

    def name(self, prefix=""):
        base = self.pick(self.pool)
        n = prefix + base
        k = 0
        while n in self.used:
            k += 1
            n = "%s%s%d" % (prefix, base, k)
        self.used.add(n)
        return n

    def params(self, allow_vararg=True, lo=0, hi=3):
        n = self.int(lo, hi)
        ndef = self.int(0, n) if self.chance(50) else 0
        out = []
        for i in range(n):
            t = self.pick(TYPES)
            d = self.pick(LITS[t]) if i >= n - ndef else None
            out.append({"name": self.name(), "type": t, "default": d, "vararg": False})
        if allow_vararg and ndef == 0 and self.chance(20):
            out.append({"name": self.name(), "type": self.pick(TYPES), "default": None, "vararg": True})
        return out

    def function(self):
        ret = self.pick([None, "Int", "Str", "Bool"])
        return {"name": self.name("f_"), "params": self.params(), "ret": ret}

    def klass(self, earlier, interfaces):
        name = self.name("K").capitalize().replace("_", "")
        if name in self.used:
            name = name + "X"
        self.used.add(name)
        args = []
        parents = []
        cands = [c for c in earlier if c["kind"] == "class"]
        if cands and self.chance(45):
            p = self.pick(cands)
            pargs = []
            for (an, at, _f) in p["args"]:
                mine = self.name()
                args.append((mine, at, False))
                pargs.append(mine)
            parents.append((p["name"], pargs if pargs else None))
            more = [c for c in cands if c is not p and not c["args"] and not c["parents"]]
            if more and self.chance(35):
                parents.append((self.pick(more)["name"], None))
        implements = []
        if interfaces and self.chance(35):
            it = self.pick(interfaces)
            parents.append((it["name"], None))
            implements = [m for m in it.get("all_members", it["members"]) if m[0] == "method"]
        for _ in range(self.int(0, 3)):
            args.append((self.name(), self.pick(TYPES), self.chance(70)))
        members = []
        for m in implements:
            members.append(("method", dict(m[1], abstract=False)))
        for _ in range(self.int(0, 5)):
            k = self.pick(["field", "method", "method", "op"])
            if k == "field":
                t = self.pick(TYPES)
                members.append(("field", self.name(), t, self.pick(LITS[t]), self.chance(25)))
            elif k == "method":
                members.append(("method", {"name": self.name("m_"), "params": self.params(allow_vararg=False),
                                           "ret": self.pick([None, "Int", "Str"]), "self_fin": self.chance(40),
                                           "abstract": False}))
            else:
                op = self.pick(sorted(OPERATORS))
                if not any(mm[0] == "op" and mm[1] == op for mm in members):
                    members.append(("op", op, self.name()))
        # operators that have no operator syntax are defined under their explicit name
        if self.chance(30):
            for dn in self.draw(st.permutations(["__le__", "__ge__", "__ne__"]))[:self.int(1, 2)]:
                members.append(("method", {"name": dn, "params": [{"name": self.name(), "type": "Int", "default": None, "vararg": False}],
                                           "ret": "Bool", "self_fin": self.chance(40), "abstract": False}))
        # shuffle members so that fields sit between methods
        order = self.draw(st.permutations(list(range(len(members)))))
        members = [members[i] for i in order]
        # parents in any order (a bare parent before one that is given arguments, an interface first, ...)
        if len(parents) > 1:
            parents = [parents[i] for i in self.draw(st.permutations(list(range(len(parents)))))]
        return {"kind": "class", "name": name, "args": args, "parents": parents, "members": members}

    def interface(self):
        name = "I" + self.name("face_").replace("_", "")
        self.used.add(name)
        members = []
        for _ in range(self.int(1, 3)):
            members.append(("method", {"name": self.name("a_"), "params": self.params(allow_vararg=False, hi=2),
                                       "ret": self.pick(["Int", "Str", None]), "self_fin": self.chance(30), "abstract": True}))
        return {"kind": "type", "name": name, "args": [], "parents": [], "members": members}

    def program(self):
        items = []
        classes, interfaces = [], []
        for _ in range(self.int(0, 2)):
            it = self.interface()
            interfaces.append(it)
            items.append(("class", it))
            if self.chance(35):
                # a type without body that only names its parent: still a class of its own, which others may extend
                name = "R" + self.name("fine_").replace("_", "")
                self.used.add(name)
                ref = {"kind": "type", "name": name, "args": [], "parents": [(it["name"], None)], "members": [],
                       "all_members": it["members"]}
                interfaces.append(ref)
                items.append(("class", ref))
        for _ in range(self.int(1, 3)):
            c = self.klass(classes, interfaces)
            classes.append(c)
            items.append(("class", c))
        for _ in range(self.int(1, 3)):
            items.append(("fun", self.function()))
        order = self.draw(st.permutations(list(range(len(items)))))
        # classes must keep their relative order (parents first); functions may go anywhere
        cls_items = [x for x in items if x[0] == "class"]
        out, ci = [], 0
        for i in order:
            if items[i][0] == "class":
                out.append(cls_items[ci])
                ci += 1
            else:
                out.append(items[i])
        return {"items": out}


def value_of(ret):
    return {"Int": "1", "Str": '"s"', "Bool": "True", "Float": "1.5"}[ret]


def render_params(params, self_kw=None):
    ps = []
    if self_kw:
        ps.append(self_kw)
    for p in params:
        s = "%s%s: %s" % ("vararg " if p["vararg"] else "", p["name"], p["type"])
        if p["default"] is not None:
            s += " := " + p["default"]
        ps.append(s)
    return ", ".join(ps)


def render(prog):
    out = []
    for kind, it in prog["items"]:
        if kind == "fun":
            head = "def %s(%s)" % (it["name"], render_params(it["params"]))
            if it["ret"]:
                out.append("%s -> %s => %s" % (head, it["ret"], value_of(it["ret"])))
            else:
                out.append("%s => pass" % head)
            out.append("")
            continue
        if it["kind"] == "type":
            out.append("type %s" % it["name"] + (": " + ", ".join(p for p, _a in it["parents"]) if it["parents"] else ""))
            for m in it["members"]:
                f = m[1]
                head = "    def %s(%s)" % (f["name"], render_params(f["params"], "fin self" if f["self_fin"] else "self"))
                out.append(head + (" -> %s" % f["ret"] if f["ret"] else ""))
            out.append("")
            continue
        head = "class %s" % it["name"]
        if it["args"]:
            head += "(%s)" % ", ".join("%s%s: %s" % ("def " if f else "", n, t) for (n, t, f) in it["args"])
        if it["parents"]:
            head += ": " + ", ".join(p + ("(%s)" % ", ".join(a) if a else "") for p, a in it["parents"])
        out.append(head)
        if not it["members"]:
            pass
        for m in it["members"]:
            if m[0] == "field":
                _, n, t, lit, fin = m
                out.append("    def %s%s: %s := %s" % ("fin " if fin else "", n, t, lit))
            elif m[0] == "method":
                f = m[1]
                head = "    def %s(%s)" % (f["name"], render_params(f["params"], "fin self" if f["self_fin"] else "self"))
                if f["ret"]:
                    out.append("%s -> %s => %s" % (head, f["ret"], value_of(f["ret"])))
                else:
                    out.append("%s => pass" % head)
            else:
                _, op, other = m
                # the result type is kept primitive: `self` as result of a class with parents is over-rejected
                ret = "Bool" if op in ("=", ">", "<") else "Int"
                out.append("    def %s(self, %s: %s) -> %s => %s" % (op, other, it["name"], ret,
                                                                     "True" if ret == "Bool" else "1"))
        out.append("")
    return "\n".join(out) + "\n"


def expected_api(prog):
    """-> dict: functions {name: params}, classes {name: {bases, init, methods{name: params}}};
    params = list of (name, has_default, default python value, vararg)."""
    def plist(params, with_self=False):
        out = [("self", False, None, False)] if with_self else []
        for p in params:
            out.append((p["name"], p["default"] is not None, PYLIT.get(p["default"]), p["vararg"]))
        return out
    funs, classes = {}, {}
    for kind, it in prog["items"]:
        if kind == "fun":
            funs[it["name"]] = plist(it["params"])
        else:
            c = {"bases": [p for p, _a in it["parents"]], "interface": it["kind"] == "type", "methods": {},
                 "init": [n for (n, t, f) in it["args"]] if it["args"] else None}
            for m in it["members"]:
                if m[0] == "method":
                    c["methods"][m[1]["name"]] = plist(m[1]["params"], True)
                elif m[0] == "op":
                    c["methods"][OPERATORS[m[1]]] = [("self", False, None, False), (m[2], False, None, False)]
            classes[it["name"]] = c
    return {"functions": funs, "classes": classes}


@st.composite
def programs(draw, names=None):
    a = A(draw, names)
    prog = a.program()
    return {"src": render(prog), "api": expected_api(prog)}
