"""Token-level mutation of Mamba text (Hypothesis strategies).

The tokenizer is a regex approximation on purpose: it only has to cut text into plausible
pieces. Every random choice is a Hypothesis draw.
"""
import re

from hypothesis import strategies as st

TOKEN_RE = re.compile(
    r'"(?:\\.|[^"\\\n])*"'          # one-line string
    r"|#[^\n]*"                      # comment
    r"|\r?\n[ ]*"                    # newline with following indentation
    r"|[ ]+"
    r"|[0-9]+(?:\.[0-9]+)?(?:E-?[0-9]*)?"
    r"|[A-Za-z_][A-Za-z_0-9]*"
    r"|::=|\.\.=|<<=|>>=|:=|\+=|-=|\*=|/=|\^=|->|=>|<=|>=|!=|//|<<|>>|\.\.|::"
    r"|.",
    re.S,
)

KEYWORDS = [
    "from", "type", "class", "pure", "isa", "as", "import", "forward", "vararg", "fin", "def",
    "mod", "sqrt", "_and_", "_or_", "_xor_", "_not_", "is", "and", "or", "not", "raise", "when",
    "while", "for", "in", "if", "then", "match", "else", "do", "continue", "break", "return",
    "with", "handle", "pass", "self", "init", "None", "True", "False", "_", "retry",
]
OPERATORS = [
    ".", ",", ":", "\\", ":=", "+=", "-=", "*=", "/=", "^=", "<<=", ">>=", "..", "..=", "::",
    "::=", "+", "-", "*", "/", "//", "^", "<<", ">>", ">", ">=", "<", "<=", "=", "!=", "(", ")",
    "[", "]", "{", "}", "|", "->", "=>", "?", "#", "\"", "!",
]
ATOMS = [
    "x", "y", "f", "A", "Int", "Str", "Bool", "Float", "List", "Set", "Tuple", "Exception",
    "print", "0", "1", "10", "007", "2.5", "1.", "3E2", "3E", "1E-2", "\"s\"", "\"\"", "\"a{x}b\"",
    "\"{\"", "\"}\"", "\"{{x}\"", "\"\"\"doc\"\"\"", "err", "__init__", "size", "math",
]
LAYOUT = ["\n", "\n    ", "\n        ", " ", "  ", "\r\n", "\n\n", "\n# c\n"]
VOCAB = KEYWORDS + OPERATORS + ATOMS + LAYOUT


def tokens(text):
    return TOKEN_RE.findall(text)


def _idx(draw, n, label=None):
    """Index into a list of length n >= 1, shrinking towards 0."""
    return draw(st.integers(min_value=0, max_value=n - 1))


MUTATION_KINDS = [
    "delete", "insert", "replace", "swap", "duplicate",
    "del_line", "dup_line", "swap_lines", "indent", "splice", "truncate",
]


def apply_mutation(draw, text, other_texts):
    """One mutation; returns (new_text, kind)."""
    kind = draw(st.sampled_from(MUTATION_KINDS))
    toks = tokens(text)
    if not toks:
        return draw(st.sampled_from(VOCAB)), "insert"
    if kind == "delete":
        i = _idx(draw, len(toks))
        del toks[i]
    elif kind == "insert":
        i = draw(st.integers(0, len(toks)))
        toks.insert(i, draw(st.sampled_from(VOCAB)))
    elif kind == "replace":
        i = _idx(draw, len(toks))
        toks[i] = draw(st.sampled_from(VOCAB))
    elif kind == "swap":
        i, j = _idx(draw, len(toks)), _idx(draw, len(toks))
        toks[i], toks[j] = toks[j], toks[i]
    elif kind == "duplicate":
        i = _idx(draw, len(toks))
        toks.insert(i, toks[i])
    elif kind == "truncate":
        i = _idx(draw, len(toks))
        toks = toks[:i]
    else:
        lines = text.split("\n")
        if kind == "del_line":
            i = _idx(draw, len(lines))
            del lines[i]
        elif kind == "dup_line":
            i = _idx(draw, len(lines))
            lines.insert(i, lines[i])
        elif kind == "swap_lines":
            i, j = _idx(draw, len(lines)), _idx(draw, len(lines))
            lines[i], lines[j] = lines[j], lines[i]
        elif kind == "indent":
            i = _idx(draw, len(lines))
            d = draw(st.integers(-4, 4))
            if d >= 0:
                lines[i] = " " * d + lines[i]
            else:
                k = min(-d, len(lines[i]) - len(lines[i].lstrip(" ")))
                lines[i] = lines[i][k:]
        elif kind == "splice":
            other = draw(st.sampled_from(other_texts)) if other_texts else text
            ol = other.split("\n")
            i = draw(st.integers(0, len(lines)))
            j = draw(st.integers(0, len(ol)))
            lines = lines[:i] + ol[j:]
        return "\n".join(lines), kind
    return "".join(toks), kind


@st.composite
def mutated(draw, texts, max_mutations=4, max_len=1024, max_lines=200):
    """Pick a text, apply 1..max_mutations mutations. Returns dict(base, text, kinds)."""
    base_i = _idx(draw, len(texts))
    text = texts[base_i]
    n = draw(st.integers(1, max_mutations))
    kinds = []
    for _ in range(n):
        text, kind = apply_mutation(draw, text, texts)
        kinds.append(kind)
    if len(text.encode("utf-8")) > max_len:
        text = text.encode("utf-8")[:max_len].decode("utf-8", "ignore")
    lines = text.split("\n")
    if len(lines) > max_lines:
        text = "\n".join(lines[:max_lines])
    return {"base": base_i, "text": text, "kinds": kinds}


# ---- random text over an alphabet biased to Mamba's lexical material ---------------------
ALPHABET_PIECES = KEYWORDS + OPERATORS + ATOMS + LAYOUT + [
    "\r", "\t", "é", "λ", "→", " ", "\x00", "'", "`", "$", "@", "~", "&", ";", "%",
]


@st.composite
def random_text(draw, max_pieces=60, max_len=1024):
    pieces = draw(st.lists(st.sampled_from(ALPHABET_PIECES), min_size=0, max_size=max_pieces))
    sep = draw(st.sampled_from(["", " ", " ", " "]))
    text = sep.join(pieces)
    if len(text.encode("utf-8")) > max_len:
        text = text.encode("utf-8")[:max_len].decode("utf-8", "ignore")
    return text
