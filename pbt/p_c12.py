"""C12 — determinism: verdict and emitted bytes depend on the input alone."""
import hashlib
import json

from hypothesis import strategies as st

from pbt import corpus, inputs
from pbt.worker import Worker, outcome

REPS = {"quick": dict(k=8, t=4, tk=2, p=3), "thorough": dict(k=24, t=8, tk=3, p=6)}


def _sig(reply):
    oc = outcome(reply)
    if oc == "ok":
        return ("ok", hashlib.sha1("\x00".join(reply["ok"]).encode("utf-8")).hexdigest())
    return (oc, "")


def related_variants(src):
    """Programs that define the same names differently: Int and Str swapped in class headers and field / method
    declarations, a type fault appended at the end (rejected after everything else was checked), a syntax fault."""
    def swap(line):
        return line.replace("Int", "\0").replace("Str", "Int").replace("\0", "Str")
    lines = src.split("\n")
    swapped = "\n".join(swap(l) if l.lstrip().startswith(("class ", "def ", "type ")) else l for l in lines)
    only_classes = "\n".join(swap(l) if l.startswith("class ") else l for l in lines)
    return [swapped, src.rstrip("\n") + "\ndef zz_fault: Int := \"s\"\n", only_classes, src.rstrip("\n") + "\ndef := (\n"]


def verdict_edges():
    """Small programs whose verdict hangs on ONE lookup among several candidates: an operator between Int and Float operands
    in both orders (the overload of the left operand's class decides), as literals, variables and fields; and a field that a
    child class declares again with another type, read through the child. Fixed list (about 110 programs)."""
    out = []
    vals = {"Int": ["3", "vi", "va.a"], "Float": ["2.5", "vf", "vb.b"]}
    head = "class A(def a: Int)\nclass B(def b: Float)\ndef vi: Int := 3\ndef vf: Float := 2.5\ndef va := A(1)\ndef vb := B(0.5)\n"
    for op in ["+", "-", "*", "/", "//", "mod", "^", "<", "=", ">="]:
        for l, r in (("Int", "Float"), ("Float", "Int"), ("Int", "Int")):
            for n in range(3):
                a, b = vals[l][n], vals[r][(n + 1) % 3]
                out.append({"gen": "edge", "src": head + "def r := %s %s %s\nprint(r)\n" % (a, op, b), "annotate": n != 1})
    types = ["Int", "Float", "Str"]
    lit = {"Int": "2", "Float": "1.5", "Str": '"s"'}
    for pt in types:
        for ct in types:
            if pt == ct:
                continue
            base = "class Pa\n    def v: %s := %s\nclass Ch: Pa\n    def v: %s := %s\ndef b := Ch()\n" % (pt, lit[pt], ct, lit[ct])
            out.append({"gen": "edge", "src": base + "def u: %s := b.v\nprint(u)\n" % ct, "annotate": True})
            out.append({"gen": "edge", "src": base + "def u: %s := b.v\nprint(u)\n" % pt, "annotate": False})
            out.append({"gen": "edge", "src": base + "def w := b.v\nprint(w)\n", "annotate": True})
    return out


class C12:
    id = "C12"
    cases = {"quick": 18, "thorough": 600}
    rule = ("inputs: CoreGen programs (classes with several members and parents, unions through if/match, handle), typed "
            "expression programs, the repository samples and seeds (fixed list), ~110 verdict-edge programs (mixed Int / Float operators in both "
            "orders, a field re-declared by a child with another type) and 2-file projects made of them. Each input "
            "is run K times in one process, on T concurrent threads, in P fresh processes, and once after a history of other "
            "inputs in the same process, and once at the end of a history of related programs run on the same thread (the same classes "
            "and functions with Int and Str swapped, the input with a type fault appended, with a syntax fault) (quick K=8, T=4x2, "
            "P=3: >=20 independent hash seedings per input). Oracle: all runs "
            "give the same verdict and, on success, byte-identical Python (diagnostic text is not compared). Non-trivial: "
            "accepted input with a class, a match, an if-expression or a handle; distinct by SHA-1 of the input.")
    assumptions = [
        "mamba has no global mutable state; the only schedule-dependent input is the per-instance hash seed, which every "
        "repetition redraws (thread interleavings themselves are not controlled)",
        "a two-outcome hash dependence with probability p per run is missed with probability (1-p)^n + p^n per input",
    ]
    strict = False
    tier = "quick"

    def strategy(self, tier, switches):
        self.tier = tier
        return inputs.sources(kinds=("core", "core", "expr", "wide", "wide", "api"))

    def fixed_cases(self, tier, switches):
        self.tier = tier
        seeds = corpus.all_seeds()
        for name, text in seeds:
            yield {"gen": "seed", "name": name, "src": text}
        for c in verdict_edges():
            yield c
        # two-file projects from consecutive valid samples
        valid = corpus.own_seeds() + corpus.repo_samples("valid")
        for i in range(0, len(valid) - 1, 7):
            yield {"gen": "project", "files": [[valid[i][1], "src/a.mamba"], [valid[i + 1][1], "src/b.mamba"]]}

    def summarize(self, case):
        if "files" in case:
            return {"gen": case["gen"], "files": [[f[0][:300], f[1]] for f in case["files"]]}
        return {"gen": case.get("gen"), "src": case["src"][:800]}

    def check(self, worker, case, stats):
        reps = REPS[self.tier]
        files = case.get("files") or [[case["src"], None]]
        annotate = case.get("annotate", True)
        req = {"files": files, "dir": "src" if files[0][1] else "", "annotate": annotate}
        stats.inc("gen:" + case.get("gen", "?"))
        sigs = {}

        def add(reply, how):
            s = _sig(reply)
            if s[0] in ("panic", "abort", "timeout", "wedged", "error"):
                return s[0]
            sigs.setdefault(s, []).append(how)
            return None

        r = worker.call(dict(req, op="transpile_rep", k=reps["k"]))
        if "results" not in r:
            stats.inc("crash_left_to_C03")
            return None
        for x in r["results"]:
            if add(x, "same process"):
                stats.inc("crash_left_to_C03")
                return None
        r = worker.call(dict(req, op="transpile_mt", k=reps["tk"], t=reps["t"]))
        if "results" not in r:
            stats.inc("crash_left_to_C03")
            return None
        for x in r["results"]:
            if add(x, "threads"):
                stats.inc("crash_left_to_C03")
                return None
        history = case.get("history") or ["def a := 1\nprint(a)\n", "class A(def x: Int)\ndef o := A(1)\nprint(o.x)\n"]
        for i in range(reps["p"]):
            w2 = Worker()
            try:
                if i == 0:
                    for h in history:
                        w2.transpile1(h, annotate)
                x = w2.call(dict(req, op="transpile"))
            finally:
                w2.close()
            if add(x, "fresh process" if i else "after history"):
                stats.inc("crash_left_to_C03")
                return None
        # history on ONE thread of one process: related programs first (the same classes and functions with other types, a
        # variant that the checker rejects at its last line, the input with a syntax error), then the input itself
        hist = [dict(req, files=[[v, f[1]] for f in files[:1]] + files[1:]) for v in related_variants(files[0][0])]
        r = worker.call({"op": "transpile_seq", "seq": hist + [req]})
        if "results" not in r:
            stats.inc("crash_left_to_C03")
            return None
        stats.inc("history_rejected_runs", sum(1 for x in r["results"][:-1] if outcome(x) == "err"))
        stats.inc("history_accepted_runs", sum(1 for x in r["results"][:-1] if outcome(x) == "ok"))
        if add(r["results"][-1], "after a history of related programs on the same thread"):
            stats.inc("crash_left_to_C03")
            return None
        runs = sum(len(v) for v in sigs.values())
        stats.inc("runs", runs)
        verdicts = set(s[0] for s in sigs)
        if "ok" in verdicts:
            stats.inc("accepted")
            text = "\n".join(f[0] for f in files)
            feats = [k for k in ("class ", "match ", " if ", "handle") if k in text]
            for k in feats:
                stats.inc("hazard:" + k.strip())
            if feats:
                stats.mark_nontrivial(case, sample=self.summarize(case), key=case.get("gen"))
        else:
            stats.inc("rejected")
        if len(sigs) > 1:
            what = ("verdict differs between runs of the same input" if len(verdicts) > 1
                    else "emitted Python differs between runs of the same input")
            return {"what": what, "outcomes": {"%s %s" % s: len(v) for s, v in sigs.items()},
                    "where": {"%s %s" % s: sorted(set(v)) for s, v in sigs.items()}}
        return None
