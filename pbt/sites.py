"""Shared scaffolding for the type-discipline properties C05-C09 (and C04): a small typed 'world' whose every
definition is annotated, typed value expressions, the documented subtype relation, and the statement positions
(top level, function body, method body, loop body, both branches, match arm, handle arm) into which a use site is
planted. Everything random is a Hypothesis draw."""
from hypothesis import strategies as st

WORLD = """class A(def a: Int)
    def ma(fin self, k: Int) -> Int => k + self.a
    def mf(fin self, k: Float) -> Float => k
    def ms(fin self, k: Str, j: Int := 2) -> Str => k
class B(bx: Int): A(bx)
    def mb(fin self) -> Int => 1
class U(def u: Str)
    def mu(fin self, k: A) -> Int => k.a
class HErr(msg: Str): Exception(msg)
def hr() raise [HErr] => print(1)
def vi: Int := 3
def vf: Float := 2.5
def vs: Str := "s"
def vb: Bool := True
def va: A := A(1)
def vbb: B := B(2)
def vu: U := U("u")
"""

PRIMS = ["Int", "Float", "Str", "Bool"]
CLASSES = ["A", "B", "U"]
TYPES = PRIMS + CLASSES + ["Any"]

VALUES = {
    "Int": ["3", "0", "vi", "(vi + 1)", "A(1).a"],
    "Float": ["2.5", "vf", "(vf * 2.0)"],
    "Str": ['"s"', "vs", '("a" + vs)'],
    "Bool": ["True", "vb", "(vi > 1)"],
    "A": ["A(1)", "va"],
    "B": ["B(2)", "vbb"],
    "U": ['U("u")', "vu"],
}


def subtype(x, t):
    """documented chain Int <: Float (<: Complex), class inheritance B <: A, everything <: Any"""
    return x == t or t == "Any" or (x == "Int" and t == "Float") or (x == "B" and t == "A")


def conforming_types(t):
    return [x for x in VALUES if subtype(x, t)]


# definitely non-conforming (pairs the docs leave open, e.g. Bool where Int is wanted, are never used)
DEFINITE_MISMATCH = {
    "Int": ["Str", "Float", "A", "U"],
    "Float": ["Str", "A", "U"],
    "Str": ["Int", "Float", "A"],
    "Bool": ["Str", "A", "Float"],
    "A": ["U", "Int", "Str"],
    "B": ["A", "U", "Int"],
    "U": ["A", "B", "Str"],
    "Any": [],
}


SWITCHES = set()   # names of open-finding switches (set by the property before drawing)
EXCLUDED = {}


def value(draw, t, target=None):
    """Text of a value of type t. `target` is the type of the position it flows into."""
    vals = VALUES[t]
    if target is not None and target != t and "no_field_access_widening" in SWITCHES:
        # open finding F41: an Int field access is rejected where a Float (or Any) is wanted
        kept = [v for v in vals if "." not in v.replace("2.5", "").replace("2.0", "")]
        if len(kept) != len(vals):
            EXCLUDED["no_field_access_widening"] = EXCLUDED.get("no_field_access_widening", 0) + 1
        vals = kept
    return draw(st.sampled_from(vals))


POSITIONS = ["top", "fun", "method", "for", "while", "then", "else", "match_arm", "match_default", "handle_arm",
             "nested_if_in_fun", "for_in_method"]


def place(position, stmts, uniq="0"):
    """Wrap statements (list of lines at indent 0) at a position. Returns list of lines at indent 0."""
    def ind(lines, n=1):
        return [("    " * n) + l for l in lines]
    if position == "top":
        return list(stmts)
    if position == "fun":
        return ["def host%s(hp: Int) =>" % uniq] + ind(stmts) + ["host%s(1)" % uniq]
    if position == "method":
        return ["class Host%s(def hv: Int)" % uniq, "    def hm(self, hq: Int) =>"] + ind(stmts, 2) + \
               ["def hobj%s := Host%s(1)" % (uniq, uniq), "hobj%s.hm(2)" % uniq]
    if position == "for":
        return ["for hi%s in 0 .. 2 do" % uniq] + ind(stmts)
    if position == "while":
        return ["def hw%s := 1" % uniq, "while hw%s > 0 do" % uniq] + ind(stmts) + ["    hw%s := hw%s - 1" % (uniq, uniq)]
    if position == "then":
        return ["if vi > 0 then"] + ind(stmts) + ["else", "    print(0)"]
    if position == "else":
        return ["if vi > 5 then", "    print(0)", "else"] + ind(stmts)
    if position == "match_arm":
        return ["match vi", "    3 =>"] + ind(stmts, 2) + ["    _ => print(0)"]
    if position == "match_default":
        return ["match vi", "    1 => print(0)", "    _ =>"] + ind(stmts, 2)
    if position == "handle_arm":
        return ["hr() handle", "    herr%s: HErr =>" % uniq] + ind(stmts, 2)
    if position == "nested_if_in_fun":
        return ["def host%s(hp: Int) =>" % uniq, "    if hp > 0 then"] + ind(stmts, 2) + ["    else", "        print(0)",
                                                                                           "host%s(1)" % uniq]
    if position == "for_in_method":
        return ["class Host%s(def hv: Int)" % uniq, "    def hm(self, hq: Int) =>", "        for hi in 0 .. hq do"] + \
               ind(stmts, 3) + ["def hobj%s := Host%s(1)" % (uniq, uniq), "hobj%s.hm(2)" % uniq]
    raise ValueError(position)


def program(defs, body_lines):
    return WORLD + "\n".join(defs) + ("\n" if defs else "") + "\n".join(body_lines) + "\n"
