"""C14 — layout trivia never changes meaning: comments, blank lines, CRLF, trailing spaces, final newline,
redundant parentheses."""
import ast
import re

from hypothesis import strategies as st

from pbt import corpus, inputs
from pbt.worker import outcome

TRIVIA = ["trailing_comment", "line_comment_prev", "line_comment_next", "blank", "blank", "spaces_only", "trailing_spaces",
          "final_newline", "crlf", "crlf", "parens", "parens_wrap", "parens_wrap"]

# a program with chains of attribute accesses as assignment targets, operands and receivers (base for `parens_wrap`)
CHAIN_BASE = """class In(def v: Int)
    def get(self) -> Int => self.v
class Mid(def b: In)
    def bump(self) =>
        self.b.v += 1
        self.b.v := self.b.v + self.b.get()
def a := Mid(In(1))
a.b.v := 5
a.b.v += 2
a.bump()
def t := a.b.v + a.b.get() * 2
match t
    1 => print(1)
    _ => print(a.b.v)
if t > 3 then
    print(t)
else
    print(0)
"""
SWITCHES = set()
EXCLUDED = {}


WORD_OPERATORS = {"sqrt", "not", "_not_", "if", "match", "mod", "isa", "isnta", "is", "isnt", "in", "and", "or", "then", "else", "do",
                  "def", "fin", "return", "raise", "handle", "when", "with", "as", "for", "while", "pass", "_and_", "_or_", "_xor_"}


def wrap_spots(l):
    """(start, end) of sub-expressions of line l that can be put between parentheses without changing anything: a prefix
    `x.y` of a longer chain `x.y.z`, the whole right-hand side of a `:=`, a name or number after a binary operator."""
    if '"' in l or "#" in l or l.lstrip().startswith(("import ", "from ", "class ", "type ")):
        return []
    spots = []
    for m in re.finditer(r"(?<![\w.)\]])([a-z_][A-Za-z0-9_]*\.[a-z_][A-Za-z0-9_]*)(?=\.[a-z_])", l):
        rest = re.match(r"(\.[a-z_][A-Za-z0-9_]*(\([^()]*\))?)+", l[m.end(1):])
        if "no_wrap_in_chain_of_four" in SWITCHES and rest.group(0).count(".") >= 2:
            # open finding F75: x.y.z.w is rejected as it stands and accepted once a prefix is put between parentheses
            EXCLUDED["no_wrap_in_chain_of_four"] = EXCLUDED.get("no_wrap_in_chain_of_four", 0) + 1
            continue
        spots.append((m.start(1), m.end(1)))
    if not re.match(r"^\s*def\s+(fin\s+)?[A-Za-z_]\w*\s*\(", l):
        m = re.search(r"(?<!:):=\s+(\S.*\S|\S)\s*$", l)   # `:=`, not the `::=` of an inclusive slice
        if m:
            rhs = m.group(1)
            last = rhs.split()[-1]
            if last not in ("then", "=>", "do", "handle", "else") and not rhs.startswith(("match ", "\\")) and "=>" not in rhs \
                    and l.count(":=") == 1 and "::" not in l:
                spots.append((m.start(1), m.end(1)))
    for m in re.finditer(r" (?:\+|-|\*|//|mod) ([a-z_]\w*|\d+)(?![\w.(\[])", l):
        if m.group(1) in WORD_OPERATORS:
            continue   # `+ sqrt (1)`: sqrt is a prefix operator, not a name
        spots.append((m.start(1), m.end(1)))
    return spots


def _indent(line):
    return len(line) - len(line.lstrip(" "))


def logical_lines(lines):
    """Indices of lines that carry code and are not inside a multi-line string (quote parity per line)."""
    out = []
    inside = False
    for i, l in enumerate(lines):
        q = len(re.findall(r'(?<!\\)"', l))
        if not inside and l.strip() and not l.lstrip().startswith("#"):
            if q % 2 == 0:
                out.append(i)
        if q % 2 == 1:
            inside = not inside
    return out


def has_multiline_string(text):
    inside = False
    for l in text.split("\n"):
        q = len(re.findall(r'(?<!\\)"', l))
        if q % 2 == 1:
            return True
    return False


@st.composite
def transformed(draw, base):
    """-> (new text, list of (kind, line, nested)). base has LF line ends and no multi-line strings."""
    lines = base.split("\n")
    had_final_nl = base.endswith("\n")
    if had_final_nl:
        lines = lines[:-1]
    n = draw(st.integers(1, 4))
    applied = []
    crlf = False
    final = None
    for _ in range(n):
        kind = draw(st.sampled_from(TRIVIA))
        code = logical_lines(lines)
        if not code:
            break
        if kind == "crlf":
            crlf = True
            applied.append((kind, -1, False))
            continue
        if kind == "final_newline":
            final = draw(st.sampled_from(["", "\n", "\n\n"]))
            applied.append((kind, -1, False))
            continue
        i = code[draw(st.integers(0, len(code) - 1))]
        if kind in ("blank", "spaces_only") and draw(st.integers(0, 9)) < 4:
            # prefer the places where the grammar accepts exactly one line break: below a match / handle header, between arms,
            # between a then block and its else
            sens = [j for n, j in enumerate(code) if n > 0 and (
                lines[code[n - 1]].lstrip().startswith("match ") or lines[code[n - 1]].rstrip().endswith((" handle", "=>"))
                or "=>" in lines[code[n - 1]] or lines[j].lstrip().startswith("else"))]
            if sens:
                i = sens[draw(st.integers(0, len(sens) - 1))]
        if kind == "parens_wrap":
            cands = [(j, sp) for j in code for sp in wrap_spots(lines[j])]
            if not cands:
                continue
            i, (a, b) = cands[draw(st.integers(0, len(cands) - 1))]
            lines[i] = lines[i][:a] + "(" + lines[i][a:b] + ")" + lines[i][b:]
            applied.append((kind, i, _indent(lines[i]) > 0))
            continue
        nested = _indent(lines[i]) > 0
        if kind == "trailing_comment":
            lines[i] = lines[i] + draw(st.sampled_from([" # c", "  #c", " # if then else", " #"]))
        elif kind == "trailing_spaces":
            lines[i] = lines[i] + " " * draw(st.integers(1, 3))
        elif kind in ("line_comment_prev", "line_comment_next", "blank", "spaces_only"):
            # insert a line before line i
            if kind == "blank":
                new = ""
            elif kind == "spaces_only":
                new = " " * draw(st.integers(1, 8))
            else:
                prev = [j for j in code if j < i]
                ref = lines[prev[-1]] if (kind == "line_comment_prev" and prev) else lines[i]
                new = " " * _indent(ref) + draw(st.sampled_from(["# comment", "#", "# def x := 1", "# else"]))
                nested = nested or _indent(ref) > 0
            lines.insert(i, new)
        elif kind == "parens":
            # double an existing pair of grouping parentheses on this line (redundant by construction)
            l = lines[i]
            spots = []
            for m in re.finditer(r"(?<![A-Za-z0-9_\])])\(", l):
                depth = 0
                for j in range(m.start(), len(l)):
                    if l[j] == "(":
                        depth += 1
                    elif l[j] == ")":
                        depth -= 1
                        if depth == 0:
                            inner = l[m.start() + 1:j]
                            # no top-level comma (a tuple is not a grouping), not empty
                            d2, comma = 0, False
                            for ch in inner:
                                if ch in "([{":
                                    d2 += 1
                                elif ch in ")]}":
                                    d2 -= 1
                                elif ch == "," and d2 == 0:
                                    comma = True
                            # not in a type position: `(Int) -> Int` vs `((Int)) -> Int` (a tuple type) differ
                            in_type = l[j + 1:].lstrip().startswith("->") or re.search(r"(:|->)\s*$", l[:m.start()])
                            if inner.strip() and not comma and '"' not in inner and not in_type:
                                spots.append((m.start(), j))
                            break
            if not spots:
                continue
            a, b = spots[draw(st.integers(0, len(spots) - 1))]
            lines[i] = l[:a] + "(" + l[a:b + 1] + ")" + l[b + 1:]
        applied.append((kind, i, nested))
    text = "\n".join(lines)
    if final is not None:
        text = text + final
    elif had_final_nl:
        text = text + "\n"
    if crlf:
        text = text.replace("\n", "\r\n")
    return text, applied


@st.composite
def _case(draw, texts):
    src = draw(inputs.sources(kinds=("core", "core", "expr", "seed", "wide", "api")))
    base = src["src"].replace("\r\n", "\n")
    if has_multiline_string(base) or "\t" in base:
        base = "def a := 1\nif a > 0 then\n    print(a)\nelse\n    print(0)\n"
    if draw(st.integers(0, 9)) == 0:
        base = CHAIN_BASE
    text, applied = draw(transformed(base))
    return {"gen": src["gen"], "base": base, "variant": text, "applied": [list(a) for a in applied]}


def py_ast(src):
    return ast.dump(ast.parse(src))


class C14:
    id = "C14"
    cases = {"quick": 200, "thorough": 8000}
    rule = ("base programs: rendered CoreGen programs, typed expression programs, repository samples and seeds without "
            "multi-line strings. Variant = base with 1-4 of: trailing comment after a code line, whole-line comment indented "
            "like the previous or the next statement, blank line, whitespace-only line, trailing spaces, final newline "
            "added/removed/doubled, LF -> CRLF for the whole file, an existing pair of grouping parentheses doubled, NEW parentheses around a "
            "prefix of an attribute chain / a whole right-hand side / an operand (parens_wrap; 10% of the bases are a fixed program full of "
            "chains); blank lines preferably below match / handle headers, between arms and before else. Oracle: "
            "same verdict; for trivia byte-identical Python, for doubled parentheses equal Python ast. Non-trivial: base "
            "accepted and >=1 trivia placed on or before an indented (nested) line; distinct by SHA-1 of base+variant.")
    assumptions = [
        "which physical lines carry code is decided by quote parity per line (inputs with multi-line strings are replaced)",
        "a doubled pair of parentheses is redundant when it is a grouping (not directly after a name, bracket or closing "
        "bracket), holds no top-level comma and no string",
    ]
    strict = False

    def __init__(self):
        self._texts = None

    def strategy(self, tier, switches):
        SWITCHES.update(s.split(".", 1)[1] for s in switches if "." in s)
        return _case(None)

    def summarize(self, case):
        return {"gen": case.get("gen"), "applied": case.get("applied"), "variant": case["variant"][:700]}

    def _stable(self, worker, src, first):
        rr = worker.call({"op": "transpile_rep", "files": [[src, None]], "dir": "", "annotate": True, "k": 12})
        return all(outcome(x) == first for x in rr.get("results", []))

    def check(self, worker, case, stats):
        base, variant = case["base"], case["variant"]
        r0 = worker.transpile1(base, True)
        r1 = worker.transpile1(variant, True)
        o0, o1 = outcome(r0), outcome(r1)
        kinds = [a[0] for a in case.get("applied", [])]
        for k in kinds:
            stats.inc("trivia:" + k)
        for k, v in list(EXCLUDED.items()):
            stats.inc("excluded_known:" + k, v)
        EXCLUDED.clear()
        if o0 not in ("ok", "err") or o1 not in ("ok", "err"):
            stats.inc("crash_left_to_C03")
            return None
        if o0 != o1:
            if not (self._stable(worker, base, o0) and self._stable(worker, variant, o1)):
                stats.inc("nondeterministic_left_to_C12")
                return None
            return {"what": "verdict changes with layout trivia %s: base=%s variant=%s" % (sorted(set(kinds)), o0, o1),
                    "diagnostics": (r0.get("err") or r1.get("err"))[:2]}
        if o0 == "err":
            stats.inc("rejected_both")
            return None
        stats.inc("accepted_both")
        if any(a[2] for a in case.get("applied", [])):
            stats.mark_nontrivial({"b": base, "v": variant}, sample=self.summarize(case))
        p0, p1 = r0["ok"][0], r1["ok"][0]
        if "parens" in kinds or "parens_wrap" in kinds:
            try:
                same = py_ast(p0) == py_ast(p1)
            except SyntaxError:
                stats.inc("invalid_python_left_to_C02")
                return None
            if not same:
                return {"what": "redundant parentheses change the emitted program", "python_base": p0, "python_variant": p1}
        elif p0 != p1:
            return {"what": "layout trivia %s change the emitted Python" % sorted(set(kinds)),
                    "python_base": p0, "python_variant": p1}
        return None
